"""C07 — Formatting and generator options never change the meaning of the SQL (DESIGN.md §4 C07).

translate : nothing is data here except SENTINEL_LINE_BREAK and the helper signatures (checked structurally, no Generated file)
prove     : Properties/C07.lean (indent / sep / seg / wrap only add or remove whitespace, for every pad / indent / width;
            sentinel round trip under a sufficient hypothesis; witnesses for the in-band sentinel)
correspond: exact outputs of Generator.{sep, seg, indent, wrap, expressions, sanitize_comment, maybe_comment} and of a string
            literal through generate() vs Model/Pretty.lean on generated strings and options
search    : the property's own oracle on the real code: trees of the core grammar x all dialects x the option product
"""

from __future__ import annotations

import inspect
import itertools
import json
import re
import time

from vf.core import Check, HarnessError
from vf.props import c01

MODULES = ["Model.Expr", "Model.Gen", "Model.Pretty", "Model.Engine", "Generated.C07", "Proofs.Pretty", "Properties.C07"]
P = "SqlglotModel.Properties.C07."
THEOREMS = [P + n for n in ["indent_ws_only", "sep_seg_ws_only", "wrap_ws_only", "expressions_ws_only", "expressions_empty_item_witness",
                            "generated_sentinel_chain_ok", "generated_surgery_sites_audited", "pretty_only_structural_branches_audited", "athena_engine_model_matches_source", "generated_athena_ctas_engines_agree", "athena_unwrapped_only_variant_witness", "embed_before_paren_comment_independent", "embed_rfind_counterexample", "sentinel_absent_in_output", "sentinel_absent_in_output_old", "sentinel_lowercased_survives", "doc_render_ws_only", "sentinel_roundtrip",
                            "sentinel_in_literal_changes_value", "sentinel_overlap_changes_value", "sanitize_comment_examples"]]
SENT = "__SQLGLOT__LB__"


def sg():
    import sqlglot
    from sqlglot import exp
    from sqlglot.generator import Generator

    return sqlglot, exp, Generator


def sentinel_chain(chk: Check) -> list:
    """the patterns of the `sql = sql.replace(<pattern>, "\\n")` calls under `if self.pretty` in Generator.generate, in order
    (<pattern> = self.SENTINEL_LINE_BREAK, optionally .lower() / .upper()); unknown shape => structure changed"""
    import ast
    import textwrap

    _, _, Generator = sg()
    chain = []
    try:
        fn = ast.parse(textwrap.dedent(inspect.getsource(Generator.generate))).body[0]
        for node in ast.walk(fn):
            if not (isinstance(node, ast.If) and isinstance(node.test, ast.Attribute) and node.test.attr == "pretty"):
                continue
            for st in node.body:
                ok = False
                if (isinstance(st, ast.Assign) and isinstance(st.value, ast.Call) and isinstance(st.value.func, ast.Attribute)
                        and st.value.func.attr == "replace" and isinstance(st.value.func.value, ast.Name) and st.value.func.value.id == "sql"
                        and len(st.value.args) == 2 and isinstance(st.value.args[1], ast.Constant) and st.value.args[1].value == "\n"):
                    pat = st.value.args[0]
                    if isinstance(pat, ast.Attribute) and pat.attr == "SENTINEL_LINE_BREAK":
                        chain.append(Generator.SENTINEL_LINE_BREAK)
                        ok = True
                    elif (isinstance(pat, ast.Call) and isinstance(pat.func, ast.Attribute) and pat.func.attr in ("lower", "upper")
                          and isinstance(pat.func.value, ast.Attribute) and pat.func.value.attr == "SENTINEL_LINE_BREAK"):
                        chain.append(getattr(Generator.SENTINEL_LINE_BREAK, pat.func.attr)())
                        ok = True
                if not ok:
                    chk.broken.append({"kind": "translator", "what": "C07: structure changed: unrecognised statement under `if self.pretty` in generate(): "
                                                                     + ast.unparse(st)[:80]})
    except Exception as ex:  # noqa
        chk.broken.append({"kind": "translator", "what": f"C07: structure changed: cannot read Generator.generate ({type(ex).__name__})"})
    return chain


SURGERY_OPS = {"rfind", "rindex", "find", "index", "split", "rsplit", "partition", "rpartition", "replace", "removesuffix", "removeprefix",
               "lstrip", "rstrip", "strip"}
RENDER_CALLS = {"sql", "func", "expressions", "function_fallback_sql", "binary", "format_args", "wrap", "indent", "seg", "sep"}


def surgery_sites(chk: Check) -> list:
    """generator methods that post-process RENDERED text (result of self.sql / self.func / … or a variable assigned from one)
    with position-dependent string operations: (file, method, operation), by ast. Comment text is part of rendered text
    unless the method renders with comment=False — such sites are marked `<operation>/nocomment` (comment-independent by
    construction); every other site is a place where a comment can steer the surgery."""
    import ast
    import glob
    import os
    from vf.core import REPO

    def render_calls(node):
        res = []
        for n in ast.walk(node):
            if isinstance(n, ast.Call) and isinstance(n.func, ast.Attribute):
                if (n.func.attr in RENDER_CALLS and isinstance(n.func.value, ast.Name) and n.func.value.id == "self") or n.func.attr.endswith("_sql"):
                    res.append(n)
        return res

    def renders(node):
        return bool(render_calls(node))

    def without_comments(node):
        """every rendering call inside `node` passes comment=False (the rendered text carries no comment text)"""
        calls = render_calls(node)
        return bool(calls) and all(any(k.arg == "comment" and isinstance(k.value, ast.Constant) and k.value.value is False for k in c.keywords)
                                   for c in calls)

    files = sorted(glob.glob(os.path.join(REPO, "sqlglot", "generators", "*.py"))) + [os.path.join(REPO, "sqlglot", "generator.py"),
                                                                                     os.path.join(REPO, "sqlglot", "dialects", "dialect.py")]
    out = set()
    for f in files:
        try:
            tree = ast.parse(open(f, encoding="utf-8").read())
        except Exception:  # noqa
            continue
        for fn in ast.walk(tree):
            if not isinstance(fn, ast.FunctionDef):
                continue
            rnames: dict = {}
            for n in ast.walk(fn):
                if isinstance(n, ast.Assign) and renders(n.value):
                    for t in n.targets:
                        if isinstance(t, ast.Name):
                            rnames[t.id] = rnames.get(t.id, True) and without_comments(n.value)

            def rendered(x):
                return renders(x) or (isinstance(x, ast.Name) and x.id in rnames)

            def suffix(x):
                nc = without_comments(x) if renders(x) else rnames.get(getattr(x, "id", None), False)
                return "/nocomment" if nc else ""

            rel = os.path.relpath(f, REPO)
            for n in ast.walk(fn):
                if isinstance(n, ast.Call) and isinstance(n.func, ast.Attribute) and n.func.attr in SURGERY_OPS and rendered(n.func.value):
                    out.add((rel, fn.name, n.func.attr + suffix(n.func.value)))
                if isinstance(n, ast.Subscript) and isinstance(n.slice, ast.Slice) and rendered(n.value):
                    out.add((rel, fn.name, "slice" + suffix(n.value)))
    return sorted(out)


WHITESPACE_HELPERS = {"generate", "sep", "seg", "indent", "wrap", "format_args", "expressions", "_replace_line_breaks", "too_wide", "__init__"}


def pretty_branch_sites(chk: Check) -> list:
    """(file, method, line) of every `if` / conditional expression whose test reads self.pretty OUTSIDE the whitespace helpers:
    places where the rendering PATH, not only the whitespace, can depend on pretty"""
    import ast
    import glob
    import os
    from vf.core import REPO

    files = sorted(glob.glob(os.path.join(REPO, "sqlglot", "generators", "*.py"))) + [os.path.join(REPO, "sqlglot", "generator.py"),
                                                                                     os.path.join(REPO, "sqlglot", "dialects", "dialect.py")]
    out = []
    for f in files:
        try:
            tree = ast.parse(open(f, encoding="utf-8").read())
        except Exception:  # noqa
            continue
        for fn in ast.walk(tree):
            if not isinstance(fn, ast.FunctionDef) or fn.name in WHITESPACE_HELPERS:
                continue
            for n in ast.walk(fn):
                if isinstance(n, (ast.If, ast.IfExp)) and any(
                        isinstance(a, ast.Attribute) and a.attr == "pretty" and isinstance(a.value, ast.Name) and a.value.id in ("self", "generator")
                        for a in ast.walk(n.test)):
                    negated = any(isinstance(u, ast.UnaryOp) and isinstance(u.op, ast.Not) for u in ast.walk(n.test))
                    body_line = n.body[0].lineno if isinstance(n, ast.If) and not negated else None
                    out.append((os.path.relpath(f, REPO), fn.name, n.lineno, body_line))
    return sorted(out)


# one corpus statement per listed site, reaching its pretty-dependent line on every run (checked with a line tracer)
PRETTY_SITE_CORPUS = {
    "create_sql": [("CREATE TABLE t WITH (format='ORC') AS SELECT a FROM b", "presto"), ("CREATE TABLE t (a INT) WITH (format='ORC')", "presto")],
    "datatype_sql": [("SELECT CAST(x AS STRUCT<a INT, b ARRAY<STRUCT<c INT, d TEXT>>>)", "bigquery")],
    "properties_sql": [("CREATE TABLE t (a INT) COMMENT 'x' WITH (format='ORC')", "presto"), ("CREATE TABLE t (a INT) COMMENT='x' ENGINE=InnoDB", "mysql")],
    "values_sql": [("SELECT a, b FROM (VALUES (1, 2), (3, 4)) AS t(a, b)", "mysql"), ("SELECT * FROM (VALUES (1, 2)) AS t", "redshift")],
    "join_sql": [("SELECT * FROM a JOIN b ON a.x = b.x LEFT JOIN c USING (y)", "")],
    "case_sql": [("SELECT CASE WHEN a_long_column_name > 10 THEN 'first long result' ELSE 'second long result' END FROM t", "")],
    "connector_sql": [("SELECT 1 FROM t WHERE a_long_column_name = 1 AND b_long_column_name = 2 OR c_long_column_name = 3", "")],
    "copy_sql": [("COPY INTO t FROM 's3://b/p' CREDENTIALS = (AWS_KEY_ID='k' AWS_SECRET_KEY='s') FILE_FORMAT = (TYPE = CSV)", "snowflake")],
}


def trace_pretty_sites(chk: Check, sites: list) -> None:
    """run each site's corpus statements with pretty=True under a line tracer; evidence: which listed sites (test line and,
    for `if self.pretty:` blocks, the first body line) were executed"""
    import os
    import sys
    import sqlglot
    from vf.core import REPO

    want = {}
    for rel, fn, line, body in sites:
        want[(os.path.join(REPO, rel), line)] = (fn, "test")
        if body:
            want[(os.path.join(REPO, rel), body)] = (fn, "pretty-path")
    hit = set()

    def tracer(frame, event, arg):
        if event == "line":
            k = (frame.f_code.co_filename, frame.f_lineno)
            if k in want:
                hit.add(k)
        return tracer

    for fn, items in PRETTY_SITE_CORPUS.items():
        for src, d in items:
            try:
                e = sqlglot.parse_one(src, dialect=d or None)
            except Exception:  # noqa
                continue
            sys.settrace(tracer)
            try:
                e.sql(dialect=d or None, pretty=True, max_text_width=20)
            except Exception:  # noqa
                pass
            finally:
                sys.settrace(None)
    reached = sorted({f"{want[k][0]}:{want[k][1]}" for k in hit})
    missing = sorted({f"{v[0]}:{v[1]}" for k, v in want.items() if k not in hit})
    chk.cov["pretty_branch_sites"] = {"listed": len(sites), "reached_by_corpus": reached, "not_reached": missing}
    if missing:
        chk.note("pretty-dependent sites not reached by the corpus: " + ", ".join(missing))


def translate(chk: Check) -> str:
    chain = sentinel_chain(chk)
    psites = pretty_branch_sites(chk)
    trace_pretty_sites(chk, psites)
    chk.cov["sentinel_replace_chain"] = chain
    sites = surgery_sites(chk)
    chk.cov["string_surgery_sites"] = len(sites)
    shapes = c01.athena_shape_table(chk)     # both engine decisions of the REAL athena code, one sample per statement shape
    chk.cov["athena_engine_shapes"] = len(shapes)
    bl = lambda x: "true" if x else "false"  # noqa

    def chars(t):
        return "[" + ", ".join("Char.ofNat %d" % ord(c) for c in t) + "]"

    return ("-- GENERATED by vf/props/c07.py from sqlglot/generator.py, sqlglot/generators/*.py, sqlglot/dialects/athena.py. Do not edit.\n"
            "import SqlglotModel.Model.Engine\n"
            "namespace SqlglotModel.Generated.C07\n"
            "def sentinelChain : List (List Char) := [" + ", ".join(chars(t) for t in chain) + "]\n"
            "/-- generator methods doing position-dependent string surgery on rendered text: (file, method, operation) -/\n"
            "def surgerySites : List (String × String × String) := [" + ", ".join(
                "(" + ", ".join(json.dumps(x) for x in t) + ")" for t in sites) + "]\n"
            "/-- methods whose rendering PATH branches on self.pretty (outside the whitespace helpers): (file, method) -/\n"
            "def prettyBranchSites : List (String × String) := [" + ", ".join(
                "(" + json.dumps(r) + ", " + json.dumps(f) + ")" for r, f in sorted({(r, f) for r, f, _, _ in psites})) + "]\n"
            "/-- athena: (shape name, shape, `_tokenize_as_hive` on the sample's tokens, `_generate_as_hive` on its parse) -/\n"
            "def athenaShapes : List (String × SqlglotModel.Engine.Shape × Bool × Bool) := [" + ", ".join(
                f"({json.dumps(n)}, ⟨.{f}, .{k}, {bl(o)}, .{bd}, {bl(ns)}⟩, {bl(t)}, {bl(g)})" for n, f, k, o, bd, ns, t, g in shapes) + "]\n"
            "end SqlglotModel.Generated.C07\n")


def structure_check(chk: Check) -> None:
    _, _, Generator = sg()
    if getattr(Generator, "SENTINEL_LINE_BREAK", None) != SENT:
        chk.broken.append({"kind": "translator", "what": f"C07: SENTINEL_LINE_BREAK changed to {getattr(Generator, 'SENTINEL_LINE_BREAK', None)!r}"})
    want = {"sep": ["self", "sep"], "seg": ["self", "sql", "sep"], "indent": ["self", "sql", "level", "pad", "skip_first", "skip_last"],
            "wrap": ["self", "expression"],
            "expressions": ["self", "expression", "key", "sqls", "flat", "indent", "skip_first", "skip_last", "sep", "prefix", "dynamic", "new_line"]}
    for name, params in want.items():
        fn = getattr(Generator, name, None)
        got = list(inspect.signature(fn).parameters) if fn else None
        if got != params:
            chk.broken.append({"kind": "translator", "what": f"C07: structure changed: Generator.{name}{got}"})


# ------------------------------------------------------------------------------------------ correspondence
PIECES = ["a", "b + 1", "SELECT", "x,", "  y", "f(a, b)", "", " ", "\n", "a\nb", "  a\n  b\n", "c  ", "(", ")", "/* c */", "'s t'", "a\n\nb"]
SEPS = [" ", "", ", ", " AND ", ",", "\n", " ,  "]


def rand_text(rng, n=3):
    return "".join(rng.choice(PIECES) for _ in range(rng.randint(0, n)))


def correspond(chk: Check) -> None:
    _, exp, Generator = sg()
    rng = chk.rng
    lines, expect, descr = [], [], []
    N = chk.pick(2500, 40000)
    for i in range(N):
        o = {"pretty": rng.random() < 0.75, "pad": rng.choice([0, 1, 2, 3, 4, 7]), "indent": rng.choice([0, 1, 2, 3, 4, 5]),
             "mtw": rng.choice([0, 1, 5, 20, 80]), "lc": rng.random() < 0.4}
        g = Generator(pretty=o["pretty"], pad=o["pad"], indent=o["indent"], max_text_width=o["mtw"], leading_comma=o["lc"])
        k = rng.choice(["sep", "seg", "indent", "indent", "wrap", "expressions", "expressions", "expressions", "literal", "sanitize", "comment"])
        req = dict(o, op=k)
        try:
            if k == "sep":
                req["s"] = rng.choice(SEPS)
                r = g.sep(req["s"])
            elif k == "seg":
                req["sql"], req["s"] = rand_text(rng), rng.choice(SEPS)
                r = g.seg(req["sql"], req["s"])
            elif k == "indent":
                req.update(sql=rand_text(rng, 4), level=rng.choice([0, 0, 1, 2, 3]), sf=rng.random() < 0.4, sl=rng.random() < 0.4)
                pad = rng.choice([None, None, 0, 1, 3])
                if pad is not None:
                    req["padarg"] = pad
                r = g.indent(req["sql"], level=req["level"], pad=pad, skip_first=req["sf"], skip_last=req["sl"])
            elif k == "wrap":
                req["sql"] = rand_text(rng, 3)
                r = g.wrap(exp.Paren(this=exp.Var(this=req["sql"]))) if False else g.wrap(_Raw(exp, req["sql"]))
            elif k == "expressions":
                items = [rng.choice(["a", "b + 1", "", "x AS y", "f(a,\n  b)", "long_name_" * rng.randint(1, 3), "c  "]) for _ in range(rng.randint(0, 5))]
                req.update(items=items, flat=rng.random() < 0.2, ind=rng.random() < 0.8, sf=rng.random() < 0.3, sl=rng.random() < 0.3,
                           s=rng.choice([", ", ", ", " ", ",", " AND "]), prefix=rng.choice(["", "", "- "]), dynamic=rng.random() < 0.4,
                           nl=rng.random() < 0.4)
                r = g.expressions(sqls=items, flat=req["flat"], indent=req["ind"], skip_first=req["sf"], skip_last=req["sl"], sep=req["s"],
                                  prefix=req["prefix"], dynamic=req["dynamic"], new_line=req["nl"])
            elif k == "literal":
                v = "".join(rng.choice(["a", " ", "\n", "_", "__SQLGLOT__LB_", SENT, "LB__", "x\n", SENT.lower(), "__sqlglot__lb_"]) for _ in range(rng.randint(0, 4)))
                req["v"] = v
                r = exp.Literal.string(v).sql(pretty=o["pretty"], pad=o["pad"], indent=o["indent"], max_text_width=o["mtw"], leading_comma=o["lc"])
            elif k == "sanitize":
                c = "".join(rng.choice(["a", " ", "*/", "/*", "*", "/", "\n", "x y"]) for _ in range(rng.randint(1, 5)))
                req["c"] = c
                r = g.sanitize_comment(c)
            else:
                cs = ["".join(rng.choice(["a", " ", "*/", "/*", "\n", "c1"]) for _ in range(rng.randint(0, 3))) for _ in range(rng.randint(0, 3))]
                on = rng.random() < 0.7
                g.comments = on
                req.update(comments=on, sql=rand_text(rng, 2), cs=cs)
                r = g.maybe_comment(req["sql"], comments=cs)
        except Exception as ex:  # noqa
            r = "!exc " + type(ex).__name__
        lines.append(json.dumps(req))
        expect.append(r)
        chk.count("corr:" + k)
        chk.case(req, nontrivial=True, sample=req if i % 500 == 0 else None)
    got = chk.driver("C07", lines)
    chk.corr_cases += len(lines)
    for l, e, gl in zip(lines, expect, got):
        m = json.loads(gl)
        if m != e:
            chk.correspondence_broken("generator helper", {"request": json.loads(l), "model": m, "impl": e})


class _RawBase:
    pass


def _Raw(exp, text):
    """an expression whose `this` generates exactly `text` (Generator.sql passes str through)"""
    return exp.Paren(this=text) if text else exp.Paren()


# ------------------------------------------------------------------------------------------ search (property oracle)
OPTION_PRODUCT = {
    "pad": [0, 1, 2, 3, 4], "indent": [0, 1, 2, 3, 4], "max_text_width": [1, 20, 80], "leading_comma": [False, True],
}


def canon(e, d, **kw):
    return e.sql(dialect=d or None, unsupported_level=_IGNORE(), **kw)


def _IGNORE():
    from sqlglot.errors import ErrorLevel

    return ErrorLevel.IGNORE


def strip_comments(e):
    e = e.copy()
    for n in e.walk():
        n.comments = None
    return e


def verdict(s: str, d: str, opts: dict, read: str | None = None):
    """None if the property holds for the tree parse_read(s) generated in dialect d under opts, else (kind, detail)"""
    sqlglot, exp, _ = sg()
    from sqlglot.errors import SqlglotError

    dd = d or None
    try:
        e = sqlglot.parse_one(s, dialect=(d if read is None else read) or None)
        default = canon(e, d)
    except SqlglotError:
        return None
    except Exception:  # noqa
        return None
    try:
        base_tree = sqlglot.parse_one(default, dialect=dd)
    except Exception as ex:  # noqa
        if read is not None:
            return None  # a tree read in another dialect whose default rendering the target cannot parse: a transpilation gap, not C07
        return "noparse-default", f"default output does not parse: {default!r}: {type(ex).__name__}"
    if any(isinstance(n, exp.Command) for n in e.walk()) or any(isinstance(n, exp.Command) for n in base_tree.walk()):
        return None  # Command fallback: the tree is the raw statement text (whitespace included), there is nothing to compare
    try:
        out = canon(e, d, **opts)
    except Exception as ex:  # noqa
        return "exception", f"sql(**{opts}) raised {type(ex).__name__}: {str(ex)[:80]}"
    for text, what in ((out, f"output under {opts}"), (default, "default output")):
        if SENT.lower() in text.lower() and SENT.lower() not in s.lower():
            return "sentinel-in-output", f"{what} contains (a case-variant of) the line-break sentinel: {text!r}"
    if opts.get("comments") is False and any(n.comments for n in e.walk()):
        for n in e.walk():
            for c in n.comments or []:
                if c.strip() and c.strip() in out and c.strip() not in canon(strip_comments(e), d, **{k: v for k, v in opts.items() if k != "comments"}):
                    return "comment-text", f"comments=False output contains comment text {c.strip()!r}: {out!r}"
    try:
        t2 = sqlglot.parse_one(out, dialect=dd)
    except Exception as ex:  # noqa
        return "noparse", f"output under {opts} does not parse: {out!r}: {type(ex).__name__}"
    # equal up to comments / identifier quoting FLAGS / function-name case, each only for the option that licenses it;
    # everything else (string literals, node kinds, other args) must be identical
    a, b = norm_tree(t2, opts), norm_tree(base_tree, opts)
    if a != b:
        return "tree", (f"parse(output under {opts}) differs from parse(default output): {out!r} vs {default!r}")
    return None


def norm_tree(t, opts):
    _, exp, _ = sg()
    t = t.copy()
    drop_comments = opts.get("comments") is False or opts.get("pretty")
    for n in t.walk():
        if drop_comments:
            n.comments = None
        if opts.get("identify") and isinstance(n, exp.Identifier):
            n.args["quoted"] = False
        if "normalize_functions" in opts and isinstance(n, exp.Anonymous):
            if isinstance(n.this, str):
                n.args["this"] = n.this.upper()
            elif isinstance(n.this, exp.Identifier) and isinstance(n.this.this, str):
                n.this.args["this"] = n.this.this.upper()   # a quoted function name is case-normalised too
    return t


C0, C1, Q0, Q1 = c01.M_C0, c01.M_C1, c01.M_Q0, c01.M_Q1
COLTYPES = ["INT", "TEXT", "BIGINT", "DECIMAL(10, 2)", "VARCHAR(10)", "DATE", "TIMESTAMP", "BOOLEAN", "DOUBLE"]
COLNAMES = ["a", "b", "c", "id", "Val", "ts", "x1"]
TABNAMES = ["foo", "t", "db.t2", "Tbl"]


class DGen:
    """the DDL / DML subset named by the property, with derivation markers (optional parts are deletable spans)"""

    def __init__(self, rng, qg):
        self.rng, self.qg = rng, qg

    def opt(self, text, p=0.4):
        return C0 + text + C1 if self.rng.random() < p else ""

    def expr(self, depth=1, lvl=0):
        return self.qg.g.level(lvl, depth)

    def coldef(self, name):
        r = self.rng
        s = name + " " + r.choice(COLTYPES)
        s += self.opt(" NOT NULL", 0.3) + self.opt(" DEFAULT " + r.choice(["0", "'d'", "NULL"]), 0.2)
        s += self.opt(" PRIMARY KEY", 0.1) + self.opt(" COMMENT 'c " + name + "'", 0.15)
        return s

    def create_table(self, depth):
        r = self.rng
        cols = r.sample(COLNAMES, r.randint(1, 4))
        body = self.coldef(cols[0]) + "".join(C0 + ", " + self.coldef(c) + C1 for c in cols[1:])
        body += self.opt(", PRIMARY KEY (" + cols[0] + ")", 0.15) + self.opt(", UNIQUE (" + cols[-1] + ")", 0.1)
        body += self.opt(", CONSTRAINT ck CHECK (" + self.expr(1) + ")", 0.1)
        s = "CREATE " + self.opt("OR REPLACE ", 0.08) + self.opt("TEMPORARY ", 0.08) + "TABLE " + self.opt("IF NOT EXISTS ", 0.2) + r.choice(TABNAMES)
        s += " (" + body + ")"
        rest = [c for c in COLNAMES if c not in cols]
        k = r.random()
        if k < 0.3:      # Hive-style typed partition columns
            pc = r.sample(rest, r.randint(1, 2))
            s += C0 + " PARTITIONED BY (" + ", ".join(c + " " + r.choice(["INT", "TEXT", "DATE"]) for c in pc) + ")" + C1
        elif k < 0.5:    # untyped
            s += C0 + " PARTITIONED BY (" + ", ".join(r.sample(cols, r.randint(1, min(2, len(cols))))) + ")" + C1
        elif k < 0.6:
            s += C0 + " PARTITION BY " + cols[0] + C1
        s += self.opt(" COMMENT 'tbl c'", 0.15) + self.opt(" WITH (format='ORC', k1=1)", 0.1) + self.opt(" STORED AS PARQUET", 0.1)
        s += self.opt(" LOCATION 's3://b/p'", 0.08) + self.opt(" TBLPROPERTIES ('k'='v')", 0.08) + self.opt(" ENGINE=InnoDB", 0.05)
        s += self.opt(" CLUSTER BY (" + cols[0] + ")", 0.05)
        return s

    def stmt(self, depth):
        r = self.rng
        k = r.random()
        t = r.choice(TABNAMES)
        if k < 0.34:
            return self.create_table(depth)
        if k < 0.42:
            return "CREATE TABLE " + t + self.opt(" COMMENT 'c'", 0.1) + " AS " + self.qg.query(depth)
        if k < 0.52:
            return ("CREATE " + self.opt("OR REPLACE ", 0.3) + self.opt("MATERIALIZED ", 0.1) + "VIEW " + r.choice(["v", "db.V1"])
                    + self.opt(" (c1, c2)", 0.2) + " AS " + self.qg.query(depth))
        if k < 0.64:
            cols = r.sample(COLNAMES, 2)
            rows = "(" + self.expr(1, 4) + ", " + self.expr(0, 4) + ")" + "".join(C0 + ", (" + self.expr(0, 4) + ", 'v')" + C1 for _ in range(r.choice([0, 0, 1, 2])))
            return "INSERT INTO " + t + self.opt(" (" + ", ".join(cols) + ")", 0.6) + (" VALUES " + rows if r.random() < 0.6 else " " + self.qg.query(depth))
        if k < 0.74:
            sets = "a = " + self.expr(1) + "".join(C0 + ", " + c + " = " + self.expr(1, 4) + C1 for c in r.sample(["b", "c"], r.choice([0, 1, 2])))
            return "UPDATE " + t + " SET " + sets + self.opt(" WHERE " + self.expr(1), 0.7)
        if k < 0.82:
            return "DELETE FROM " + t + self.opt(" WHERE " + self.expr(1), 0.8)
        if k < 0.90:
            return ("MERGE INTO " + t + " AS tgt USING s ON tgt.a = s.a" + C0 + " WHEN MATCHED" + self.opt(" AND " + self.expr(0), 0.3)
                    + " THEN UPDATE SET tgt.b = " + self.expr(1, 4) + C1 + C0 + " WHEN NOT MATCHED THEN INSERT (a, b) VALUES (s.a, " + self.expr(0, 4) + ")" + C1
                    + self.opt(" WHEN MATCHED THEN DELETE", 0.2))
        if k < 0.94:
            return "ALTER TABLE " + t + " ADD COLUMN " + self.coldef(r.choice(COLNAMES))
        if k < 0.97:
            return "DROP " + r.choice(["TABLE", "VIEW"]) + self.opt(" IF EXISTS", 0.5) + " " + t + self.opt(" CASCADE", 0.2)
        return "CREATE " + self.opt("UNIQUE ", 0.3) + "INDEX ix ON " + t + " (a" + self.opt(", b DESC", 0.4) + ")"


DDL_TEMPLATES = [
    "CREATE TABLE foo (a TEXT) PARTITIONED BY (b INT, c TEXT)", "CREATE TABLE foo (a TEXT, b INT) PARTITIONED BY (b)",
    "CREATE TABLE t (a INT NOT NULL DEFAULT 0 COMMENT 'x', b TEXT, PRIMARY KEY (a)) COMMENT 'y'", "CREATE TABLE t AS SELECT a, b FROM u WHERE a > 1",
    "CREATE OR REPLACE VIEW v (c1) AS SELECT a FROM t", "INSERT INTO t (a, b) VALUES (1, 'x'), (2, 'y')", "INSERT INTO t SELECT a, b FROM u",
    "UPDATE t SET a = a + 1, b = 'z' WHERE c IS NULL", "DELETE FROM t WHERE a IN (1, 2)",
    "MERGE INTO t AS tgt USING s ON tgt.a = s.a WHEN MATCHED THEN UPDATE SET tgt.b = s.b WHEN NOT MATCHED THEN INSERT (a, b) VALUES (s.a, s.b)",
    "ALTER TABLE t ADD COLUMN c INT", "DROP TABLE IF EXISTS t", "CREATE TABLE t (a INT) WITH (format='ORC')",
    "CREATE TABLE t (a INT) STORED AS PARQUET LOCATION 's3://b/p' TBLPROPERTIES ('k'='v')",
    "CREATE TABLE t (a INT, UNIQUE (a))", "CREATE TABLE t (a INT) PARTITION BY a", "CREATE TEMPORARY TABLE db.t2 (c INT)",
    "CREATE TABLE IF NOT EXISTS t (a INT)", "CREATE TABLE t (a INT) STORED AS PARQUET", "CREATE TABLE t (a INT, CONSTRAINT ck CHECK (a > 0))",
    "CREATE UNIQUE INDEX ix ON t (a, b DESC)", "CREATE MATERIALIZED VIEW v AS SELECT a FROM t", "DROP VIEW IF EXISTS v CASCADE",
    "CREATE TABLE t (a INT PRIMARY KEY, b TEXT COMMENT 'c b') CLUSTER BY (a)", "CREATE TABLE t (a INT) ENGINE=InnoDB",
    "UPDATE t SET a = 1", "DELETE FROM t", "MERGE INTO t AS tgt USING s ON tgt.a = s.a WHEN MATCHED THEN DELETE",
    # every Query kind as a CTAS / VIEW / INSERT body (dialects with an engine switch decide per statement shape)
    "CREATE TABLE t AS SELECT a FROM b UNION SELECT c FROM d", "CREATE TABLE t AS SELECT a FROM b EXCEPT SELECT c FROM d",
    "CREATE TABLE t AS (SELECT a FROM b)", "CREATE TABLE t AS WITH c AS (SELECT a FROM b) SELECT * FROM c",
    "CREATE TABLE t AS SELECT * FROM (SELECT a FROM b) AS s", "CREATE VIEW v AS SELECT a FROM b UNION ALL SELECT c FROM d",
    "INSERT INTO t (SELECT a FROM b UNION SELECT c FROM d)", "CREATE TABLE t AS VALUES (1, 'x')",
]
READ_DIALECTS = [None, None, "", "hive", "spark", "mysql", "postgres", "bigquery", "snowflake", "tsql", "duckdb", "presto"]


def skeleton(s, d):
    """c01's skeleton, with identifiers whose text contains a line break marked `idnl`"""
    try:
        toks = c01.real_tokens(d, s)
    except Exception:  # noqa
        return "untokenizable"
    out = []
    for i, (ty, text) in enumerate(toks):
        nxt = toks[i + 1][0] if i + 1 < len(toks) else None
        if ty in ("VAR", "IDENTIFIER") and "\n" in text:
            out.append("idnl")
        elif ty == "VAR" and nxt == "L_PAREN":
            out.append(text.upper())
        elif ty in ("VAR", "IDENTIFIER"):
            out.append("id")
        elif ty == "NUMBER":
            out.append("n")
        elif ty == "STRING":
            out.append("lit")
        else:
            out.append(text.upper())
    return " ".join(out)


def opt_key(opts):
    keys = []
    if opts.get("pretty"):
        keys.append("pretty")
    if opts.get("comments") is False:
        keys.append("nocomments")
    if opts.get("identify"):
        keys.append("identify")
    if "normalize_functions" in opts:
        keys.append("normfunc")
    return "+".join(keys) or "default"


COMMENT_TEXTS = ["non-null values (sorted)", "a) b", "x, y (", "it's", "IGNORE NULLS", 'say "hi"', "/ * nested * /", "FROM t AS u", "--", "a;b", "[0]", "END"]
COMMENT_TEMPLATES = [
    "SELECT ARRAY_AGG(x IGNORE NULLS) /* {c} */ AS xs FROM t",
    "SELECT ARRAY_AGG(x RESPECT NULLS) /* {c} */ FROM t",
    "SELECT FIRST_VALUE(x IGNORE NULLS) /* {c} */ OVER (ORDER BY y) FROM t",
    "SELECT FIRST_VALUE(x) /* {c} */ IGNORE NULLS OVER (ORDER BY y) AS f FROM t",
    "SELECT LAST_VALUE(x /* {c} */ IGNORE NULLS) OVER (PARTITION BY z ORDER BY y) /* {c} */ AS l FROM t",
    "SELECT NTH_VALUE(x, 2) /* {c} */ IGNORE NULLS OVER w FROM t WINDOW w AS (ORDER BY y) /* {c} */",
    "SELECT ARRAY_AGG(x ORDER BY y /* {c} */ LIMIT 2) /* {c} */, STRING_AGG(x, ',' /* {c} */) /* {c} */ FROM t",
    "SELECT PERCENTILE_CONT(0.5) /* {c} */ WITHIN GROUP (ORDER BY x /* {c} */) /* {c} */ FROM t",
    "SELECT F(a /* {c} */, b) /* {c} */ FROM t /* {c} */ WHERE a = 1 /* {c} */",
    "SELECT CAST(a AS INT) /* {c} */, CASE WHEN a THEN 1 END /* {c} */, (SELECT 1) /* {c} */ FROM t",
    "SELECT a /* {c} */ AS b, 'x' /* {c} */, 1 /* {c} */, ~a /* {c} */, -a /* {c} */ FROM (SELECT 1) /* {c} */ AS s",
    "SELECT COUNT(DISTINCT a /* {c} */) /* {c} */, SUM(a) /* {c} */ OVER (PARTITION BY b) /* {c} */ FROM t",
    "SELECT a FROM t /* {c} */ JOIN u /* {c} */ ON t.a = u.a /* {c} */ GROUP BY a /* {c} */ ORDER BY a /* {c} */ LIMIT 1 /* {c} */",
    "SELECT a IN (1 /* {c} */, 2) /* {c} */, a BETWEEN 1 AND 2 /* {c} */ FROM t",
    "CREATE TABLE t /* {c} */ (a INT /* {c} */, b TEXT) /* {c} */",
    "INSERT INTO t /* {c} */ VALUES (1 /* {c} */) /* {c} */",
    "ALTER TABLE t /* {c} */ ADD COLUMN c INT /* {c} */",
]
VALUES_TEMPLATES = [
    "SELECT a, b FROM (VALUES (1, 2), (3, 4)) AS t(a, b)", "SELECT * FROM (VALUES (1, 2), (3, 4)) AS t", "SELECT * FROM (VALUES (1, 'x')) AS t(a, b)",
    "SELECT t.a FROM u JOIN (VALUES (1, 2), (3, 4)) AS t(a, b) ON u.a = t.a", "SELECT * FROM u CROSS JOIN (VALUES (1), (2)) AS t",
    "SELECT a FROM (VALUES (1, 2)) AS t(a, b) WHERE b IN (SELECT c FROM (VALUES (3)) AS v(c))", "SELECT * FROM (VALUES (1, 2))",
    "WITH c AS (SELECT * FROM (VALUES (1, 2), (3, 4)) AS t(a, b)) SELECT a FROM c", "INSERT INTO t SELECT * FROM (VALUES (1, 2)) AS v(a, b)",
    "SELECT * FROM (VALUES (1, 2), (3, 4)) AS \"T x\"(\"a b\", c)",
]
# the same Query kinds with engine-neutral spelling, so that the DEFAULT output is readable by either engine and only the
# option under test (identify / pretty) decides
ENGINE_SIMPLE = ["CREATE TABLE foo AS (SELECT a FROM b)", "CREATE TABLE foo AS (SELECT a FROM b UNION SELECT c FROM d)",
                 "CREATE TABLE foo AS SELECT a FROM b UNION SELECT c FROM d", "CREATE TABLE foo AS SELECT a FROM b EXCEPT SELECT c FROM d",
                 "CREATE TABLE foo AS WITH c AS (SELECT a FROM b) SELECT * FROM c", "CREATE TABLE foo AS SELECT * FROM (SELECT a FROM b) AS s",
                 "CREATE TABLE IF NOT EXISTS foo AS (SELECT a FROM b)", "CREATE VIEW v AS (SELECT a FROM b)", "INSERT INTO foo (SELECT a FROM b)"]
OPT_SWEEP = [
    {"pretty": True, "pad": 2, "indent": 2, "max_text_width": 20}, {"pretty": True, "pad": 0, "indent": 4, "max_text_width": 1, "leading_comma": True},
    {"comments": False}, {"identify": True}, {"identify": "safe"}, {"normalize_functions": "lower"}, {"normalize_functions": False},
    {"pretty": True, "identify": True, "comments": False, "normalize_functions": "upper", "max_text_width": 80},
]


def search(chk: Check, budget_s: float) -> None:
    t0 = time.time()
    rng = chk.rng
    dummy = _Quiet()
    tabs = c01.dialect_tables(dummy)
    dialects = sorted(tabs)
    qg = c01.QGen(rng, tabs[""])
    dg = DGen(rng, qg)
    tried = found = 0

    def rand_opts():
        o = {}
        if rng.random() < 0.7:
            o["pretty"] = True
            for k, vs in OPTION_PRODUCT.items():
                o[k] = rng.choice(vs)
        if rng.random() < 0.3:
            o["comments"] = False
        if rng.random() < 0.45:
            o["identify"] = rng.choice([True, "safe"])
        if rng.random() < 0.3:
            o["normalize_functions"] = rng.choice(["upper", "lower", False])
        return o

    def consider(m, d, opts, read=None, label=None):
        nonlocal tried, found
        tried += 1
        s = c01.unmark(m)
        v = verdict(s, d, opts, read)
        chk.count("search:" + ("holds" if v is None else v[0]))
        if v is None:
            return
        found += 1
        small = shrink(m, d, opts, v[0], time.time() + 8.0, read)
        # minimise the options too
        for k in list(opts):
            o2 = {kk: vv for kk, vv in opts.items() if kk != k}
            v3 = verdict(small, d, o2, read)
            if v3 and v3[0] == v[0]:
                opts = o2
        if read is not None:
            v3 = verdict(small, d, opts, None)
            if v3 and v3[0] == v[0]:
                read = None
        v2 = verdict(small, d, opts, read) or v
        key = (v2[0] + ":" + opt_key(opts) + ":" + (label + ":" if label else "")
               + skeleton(small, d if read is None else read).replace("__SQLGLOT__LB__", "SENTINEL"))
        if SENT in small or "__SQLGLOT__LB_" in small:
            key = v2[0] + ":text-contains-sentinel-prefix"
        chk.report_violation(key, f"[{d or 'base'}{'' if read is None else ' <- ' + (read or 'base')}] {v2[1]}",
                             {"dialect": d, "read": read, "sql": small, "options": opts, "original": s}, {"dialect": d})

    templates = ["SELECT '__SQLGLOT__LB__'", "SELECT '__SQLGLOT__LB_\n_'", "SELECT a /* c1 */, b -- c2\nFROM t", "SELECT a -- x */ y\n, b",
                 "SELECT \"Q w\", f(a) FROM t WHERE a IN (1, 2, 3) AND b BETWEEN 1 AND 2", "SELECT CASE WHEN a THEN 1 ELSE 2 END FROM (SELECT 1) AS s"]
    for s in templates:
        for d in dialects:
            consider(s, d, {"pretty": True, "pad": 2, "indent": 2, "max_text_width": 20})
            consider(s, d, {"comments": False})
    # quoted names containing a line break in function / column / table / alias positions, under every
    # normalize_functions setting x pretty x identify
    from sqlglot.dialects.dialect import Dialect

    nl_templates = ["SELECT {q}a\nB{e}(1)", "SELECT {q}c\nD{e} FROM t", "SELECT a FROM {q}t\nU{e}", "SELECT a AS {q}x\nY{e} FROM t",
                    "SELECT t.{q}c\nD{e} FROM t AS t", "SELECT {q}f\nG{e}({q}c\nD{e}) AS {q}x\nY{e} FROM {q}t\nU{e} AS {q}v\nW{e}",
                    "SELECT LOWER({q}c\nD{e}), {q}a\nB{e}({q}a\nB{e}(1)) FROM t"]
    for d in dialects:
        inst = Dialect.get_or_raise(d or None)
        q, e = inst.IDENTIFIER_START, inst.IDENTIFIER_END
        for tpl in nl_templates:
            src = tpl.format(q=q, e=e)
            for nf in ("upper", "lower", False, None):
                for pretty in (True, False):
                    for ident in (False, True):
                        o = {}
                        if nf is not None:
                            o["normalize_functions"] = nf
                        if pretty:
                            o["pretty"] = True
                        if ident:
                            o["identify"] = True
                        if o:
                            consider(src, d, o)
    # comment texts containing every structural character a generator method might search for, attached to node kinds whose
    # methods post-process rendered text; oracle: output with comments == output without comments, modulo comments
    t1 = time.time()
    ctexts = COMMENT_TEXTS if not chk.quick else COMMENT_TEXTS[:5]
    csets = [{"comments": False}, {"comments": False, "pretty": True, "max_text_width": 20}]
    if not chk.quick:
        csets += [{"comments": False, "identify": True}, {"comments": False, "pretty": True, "leading_comma": True, "pad": 0, "indent": 0}]
    for tpl in COMMENT_TEMPLATES:
        for c in ctexts:
            src = tpl.replace("{c}", c)
            for d in dialects:
                for o in csets:
                    consider(src, d, dict(o))
    chk.cov["comment_structure_sweep"] = {"templates": len(COMMENT_TEMPLATES), "comment_texts": len(ctexts), "option_sets": len(csets),
                                          "wall_s": round(time.time() - t1, 1)}
    # VALUES in FROM / JOIN with and without an alias column list x every dialect (dialects without VALUES-as-table rewrite it,
    # some only under pretty), and the corpus statement of every pretty-dependent site; parse(pretty) vs parse(default)
    popts = [{"pretty": True}, {"pretty": True, "max_text_width": 20, "pad": 0, "indent": 4}, {"pretty": True, "leading_comma": True, "max_text_width": 1}]
    for src in VALUES_TEMPLATES:
        for d in dialects:
            for o in popts[:2] if chk.quick else popts:
                consider(src, d, dict(o), None, "values")
    for fn, items in PRETTY_SITE_CORPUS.items():
        for src, d in items:
            for o in popts:
                consider(src, d, dict(o), None, "prettysite")
    # dialects with an engine / mode switch: the generator-side engine applies the options, the tokenizer-side engine re-reads
    # the output; every Query kind as CTAS / VIEW / INSERT body under the options that change spelling per engine
    msd = c01.mode_switch_dialects()
    chk.cov["mode_switch_dialects"] = msd
    eopts = [{"identify": True}, {"identify": "safe"}, {"pretty": True}, {"pretty": True, "identify": True, "comments": False}]
    for d in msd:
        for src in list(c01.engine_templates()) + ENGINE_SIMPLE:
            for o in eopts:
                consider(src, d, dict(o), None, "engine")
    # the DDL / DML subset: every template x every dialect x the option sweep, read in the target dialect and in the base dialect
    t1 = time.time()
    for s in DDL_TEMPLATES:
        for d in dialects:
            for i, o in enumerate(OPT_SWEEP):
                consider(s, d, dict(o))
                if not chk.quick or i in (0, 3):   # quick tier: base-read trees only under pretty and identify=True
                    consider(s, d, dict(o), "")
    chk.cov["ddl_dml_template_sweep"] = {"templates": len(DDL_TEMPLATES), "dialects": len(dialects), "option_sets": len(OPT_SWEEP),
                                         "wall_s": round(time.time() - t1, 1)}
    t0 = time.time()
    while time.time() - t0 < budget_s and len(chk.violations) < 5:
        depth = rng.choice([0, 1, 1, 2])
        ddl = rng.random() < 0.5
        m = Q0 + dg.stmt(min(depth, 1)) + Q1 if ddl else qg.query(depth)
        chk.count("search:stmt:" + ("ddl/dml" if ddl else "select"))
        if not ddl and rng.random() < 0.3:
            m = m.replace(" FROM ", " /* c0m */ FROM ", 1) if " FROM " in m else m + " -- c0m"
        chk.case(("search", c01.unmark(m)), nontrivial=True)
        for d in [""] + rng.sample(dialects, 4):
            consider(m, d, rand_opts(), rng.choice(READ_DIALECTS))
            if time.time() - t0 > budget_s:
                break
    chk.search_info = {"ran": True, "budget_s": budget_s, "statement_dialect_option_triples": tried, "violating": found,
                       "oracle": "parse_d(sql_d(tree, **opts)) equals parse_d(sql_d(tree)) as TREES after clearing only what the option licenses "
                                 "(comments for comments=False/pretty, Identifier.quoted for identify, Anonymous name case for normalize_functions); "
                                 "no output contains any case-variant of the sentinel; comments=False output has no comment text; quoted names "
                                 "with line breaks in function / column / table / alias position under every normalize_functions setting; trees come from SELECT/expression and "
                                 "DDL/DML grammars read in the target dialect or another dialect"}


class _Quiet:
    """stand-in Check for c01.dialect_tables (collects translator notes we do not need here)"""

    def __init__(self):
        self.broken = []
        self.cov = {}


def shrink(m, d, opts, kind, deadline, read=None):
    def ok(c):
        v = verdict(c01.unmark(c), d, opts, read)
        return v is not None and v[0] == kind

    cur = m
    progress = True
    while progress and time.time() < deadline:
        progress = False
        sp = c01.spans(cur)
        cands = []
        for k, a, b in sp:
            if k == "C":
                cands.append(cur[:a] + cur[b + 1:])
                continue
            cands.append((c01.M_Q0 + "SELECT " + cur[a:b + 1] + c01.M_Q1) if k == "E" else cur[a:b + 1])
            for k2, a2, b2 in sp:
                if k2 == k and a < a2 and b2 < b:
                    cands.append(cur[:a] + cur[a2:b2 + 1] + cur[b + 1:])
            if k == "E" and c01.unmark(cur[a:b + 1]) not in ("a", "1"):
                cands.append(cur[:a] + c01.M_E0 + "a" + c01.M_E1 + cur[b + 1:])
        n0 = len(c01.unmark(cur))
        for c in sorted(set(c for c in cands if len(c01.unmark(c)) < n0), key=lambda c: len(c01.unmark(c))):
            if time.time() > deadline:
                break
            if ok(c):
                cur, progress = c, True
                break
    return c01.unmark(cur)


def run(chk: Check) -> None:
    chk.trusted.append("C07: hand-written model Model/Pretty.lean of Generator.{sep,seg,indent,wrap,expressions,sanitize_comment,"
                       "maybe_comment,_replace_line_breaks} and the sentinel replacement in generate()")
    chk.assumptions += [
        "the theorems are about the formatting helpers; that each of the ~1500 *_sql methods composes them without dropping "
        "a token is checked by the search oracle only (parametric premise, monitored)",
        "str.strip/rstrip whitespace is modelled as {space, newline, tab, CR}",
    ]
    import logging

    logging.getLogger("sqlglot").setLevel(logging.ERROR)
    structure_check(chk)
    chk.write_generated(translate(chk))
    proved = chk.prove(MODULES, "Properties.C07", THEOREMS)
    try:
        correspond(chk)
    except HarnessError as e:
        if proved:
            raise
        chk.note(f"model driver unavailable ({e}); continuing with the search on the real code")
    budget = chk.pick(14, 300)
    if chk.broken:
        budget *= 2
    search(chk, budget)


def replay(path: str) -> int:
    import sys
    from vf.core import REPO

    sys.path.insert(0, REPO)
    rec = json.load(open(path))
    r = rec.get("replay")
    if not r:
        print(json.dumps(rec, indent=1))
        return 1
    v = verdict(r["sql"], r["dialect"], r["options"], r.get("read"))
    print("replay:", ("VIOLATES: " + v[1]) if v else "holds")
    return 1 if v else 0
