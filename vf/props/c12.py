"""C12 — Serialisation and copying reproduce the tree exactly (DESIGN.md §4 C12).

translate : payload key constants + the guards of serde.dump / load / _load and the shape of
            Expression.__reduce__ (ast of sqlglot/serde.py, sqlglot/expressions/core.py) -> Generated/C12.lean
prove     : Properties/C12.lean (dump = pre-order; load(dump t) = norm t for every tree incl. Expression-valued meta;
            closed form of the loaded object graph; load_links (C08 invariant of rebuilt trees); every accepted payload
            list gives a closed, acyclic, hash-free graph and exactly which lists are accepted; dump_json; pickle =
            load . dump with no cached hash; copy t = t for the iterative __deepcopy__ with hash invalidation, the copy
            shares no node and invents no hash)
correspond: real trees (parsed in many dialects, raw / annotate_types / qualify; directly constructed instances of
            every Expression subclass covering every arg kind) -> real dump() payloads compared element-wise with the
            model's dump, model load of the real payloads compared with the real load(); plus mutated payload lists
            (load's set/append glue on inputs dump never produces)
search    : the property's own oracle on the real code: load(dump(t)) == t, same .sql() in several dialects, same
            type/comments/meta/args on every node, restored parent links, JSON text round trip, pickle, copy()
"""

from __future__ import annotations

import ast
import copy as _copy
import json
import os
import pickle
import time

from vf.core import Check, REPO, HarnessError, lean_str

MODULES = ["Model.Serde", "Proofs.Serde", "Proofs.SerdeCopy", "Generated.C12", "Properties.C12"]
THEOREMS = [
    "SqlglotModel.Properties.C12.dump_preorder",
    "SqlglotModel.Properties.C12.load_arena_dump",
    "SqlglotModel.Properties.C12.load_dump",
    "SqlglotModel.Properties.C12.reify_arena",
    "SqlglotModel.Properties.C12.norm_idem",
    "SqlglotModel.Properties.C12.dump_norm",
    "SqlglotModel.Properties.C12.load_dump_normal",
    "SqlglotModel.Properties.C12.load_links",
    "SqlglotModel.Properties.C12.load_no_dangling",
    "SqlglotModel.Properties.C12.dump_json",
    "SqlglotModel.Properties.C12.pickle_roundtrip",
    "SqlglotModel.Properties.C12.unpickled_no_hash",
    "SqlglotModel.Properties.C12.stale_hash_witness",
    "SqlglotModel.Properties.C12.copy_eq",
    "SqlglotModel.Properties.C12.copy_shares_no_node",
    "SqlglotModel.Properties.C12.copy_hashes_from_source",
    "SqlglotModel.Properties.C12.load_accepts",
    "SqlglotModel.Properties.C12.load_shares_nothing_with_payload",
    "SqlglotModel.Properties.C12.source_builds_meta_dict",
    "SqlglotModel.Properties.C12.load_aliases_comments_witness",
    "SqlglotModel.Properties.C12.load_aliases_meta_witness",
    "SqlglotModel.Properties.C12.raw_list_value_shared_witness",
    "SqlglotModel.Properties.C12.type_view_roundtrip",
    "SqlglotModel.Properties.C12.cast_type_materialised_witness",
    "SqlglotModel.Properties.C12.datatype_own_type_dropped_witness",
    "SqlglotModel.Properties.C12.copy_vs_load_dump",
    "SqlglotModel.Properties.C12.copy_load_dump_differ_witness",
    "SqlglotModel.Properties.C12.json_text_roundtrip",
    "SqlglotModel.Properties.C12.dump_json_text_roundtrip",
    "SqlglotModel.Properties.C12.load_links_any",
    "SqlglotModel.Properties.C12.copy_links",
    "SqlglotModel.Properties.C12.node_slot_address_unique",
    "SqlglotModel.Properties.C12.generated_enum_codec_ok",
    "SqlglotModel.Properties.C12.dtype_codec_roundtrip",
    "SqlglotModel.Properties.C12.dtype_codec_mismatch_witness",
    "SqlglotModel.Properties.C12.eq_preserved_by_load_dump",
    "SqlglotModel.Properties.C12.eq_preserved_by_copy",
    "SqlglotModel.Properties.C12.eq_blind_to_type_comments_meta",
    "SqlglotModel.Properties.C12.eq_coarser_than_norm_witness",
    "SqlglotModel.Properties.C12.cast_type_reads_audited",
    "SqlglotModel.Properties.C12.empty_vs_absent_readers_audited",
    "SqlglotModel.Properties.C12.view_id_of_no_rules",
    "SqlglotModel.Properties.C12.generated_ok",
    "SqlglotModel.Properties.C12.duplicate_keys_witness",
]

EXPECTED_KEYS = ["INDEX", "ARG_KEY", "IS_ARRAY", "CLASS", "TYPE", "COMMENTS", "META", "VALUE", "DATA_TYPE", "META_EXPR"]
LEAN_KEY_NAMES = {
    "INDEX": "keyIndex", "ARG_KEY": "keyArgKey", "IS_ARRAY": "keyIsArray", "CLASS": "keyClass", "TYPE": "keyType",
    "COMMENTS": "keyComments", "META": "keyMeta", "VALUE": "keyValue", "DATA_TYPE": "dataType",
    "META_EXPR": "keyMetaExpr",
}
# the guards the hand model mirrors, in source order (ast.unparse of every `if`/`elif` test, `for` iterable, `while` test)
EXPECTED_SHAPE = {
    "dump": [
        "while stack", "if index is not None", "if arg_key is not None", "if is_array", "if hasattr(node, 'parent')",
        "if node.__class__.__module__ != exp.__name__", "if node.type and node.type is not node", "if node.comments",
        "if node._meta is not None", "if node.args", "for reversed(node.args.items())", "if type(vs) is list",
        "for reversed(vs)", "if vs is not None", "if type(node) is exp.DType",
    ],
    "load": ["if not payloads", "for tail", "if CLASS in payload", "if payload.get(IS_ARRAY)"],
    "_load": ["if class_name == DATA_TYPE", "if '.' in class_name", "if meta is not None"],
}
# accepted variant: pending_fixes/C12-dump-raw-type.diff dumps the raw `_type` field instead of the `type` property
RAW_TYPE_GUARD = "if node._type is not None and node._type is not node"
SHAPE_VARIANTS: dict = {
    "dump": [[RAW_TYPE_GUARD if g == "if node.type and node.type is not node" else g for g in EXPECTED_SHAPE["dump"]]],
}
# the two dict comprehensions that encode / decode Expression-valued meta entries (ast.unparse of the assigned value)
EXPECTED_ASSIGN = {
    ("dump", "payload[META]"): "{k: {META_EXPR: dump(v)} if isinstance(v, exp.Expr) else v for k, v in node._meta.items()}",
    ("_load", "meta"): ["payload.get(META)",
                        "{k: load(v[META_EXPR]) if isinstance(v, dict) and META_EXPR in v else v for k, v in meta.items()}"],
    ("_load", "expression._meta"): "meta",
    ("_load", "expression._type"): "load(payload.get(TYPE))",
}
# how comments travel (decides SharePolicy): value expression -> does it copy the list?
COMMENTS_FORMS = {
    ("_load", "expression.comments"): {"payload.get(COMMENTS)": False,
                                       "list(payload[COMMENTS]) if COMMENTS in payload else None": True},
    ("dump", "payload[COMMENTS]"): {"node.comments": False, "list(node.comments)": True},
}
EXPECTED_REDUCE = "(load, (dump(self),))"
CORE_SKIP_THEN = {"set": ("index is not None",)}
# Expression methods of sqlglot/expressions/core.py the model mirrors (`attach`, `clearUp`, `copyLoopWith`): guards in
# source order, and the ordered (target, value) list of their simple assignments
EXPECTED_CORE = {
    "__deepcopy__": (
        ["while stack", "if node.comments is not None", "if node._type is not None", "if node._meta is not None",
         "if node._hash is not None", "for node.args.items()", "if isinstance(vs, Expr)", "if type(vs) is list",
         "for vs", "if isinstance(v, Expr)"],
        [("root", "self.__class__()"), ("(node, copy)", "stack.pop()"), ("copy.comments", "deepcopy(node.comments)"),
         ("copy._type", "deepcopy(node._type)"), ("copy._meta", "deepcopy(node._meta)"), ("copy._hash", "node._hash"),
         ("copy.args[k]", "[]"), ("copy.args[k]", "vs")]),
    "append": (
        ["while node and node._hash is not None", "if type(self.args.get(arg_key)) is not list", "if isinstance(value, Expr)"],
        [("values", "self.args[arg_key]"), ("node._hash", "None"), ("node", "node.parent"), ("self.args[arg_key]", "[]"),
         ("value.index", "len(values)")]),
    # `load` and `__deepcopy__` only ever call `set(arg_key, value)` (index=None): the positional-edit branch
    # `if index is not None:` (list surgery, negative-index normalisation, sibling renumbering: C08's territory) is not
    # mirrored by `attach` and therefore not pinned; its `elif value is None` / fall-through continuation is.
    "set": (
        ["while node and node._hash is not None", "if index is not None", "if value is None"],
        [("self.args[arg_key]", "value"), ("node._hash", "None"), ("node", "node.parent")]),
    "_set_parent": (
        ["if isinstance(value, Expr)", "if isinstance(value, list)", "for enumerate(value)", "if isinstance(v, Expr)"],
        [("value.parent", "self"), ("value.arg_key", "arg_key"), ("value.index", "index"), ("v.parent", "self"),
         ("v.arg_key", "arg_key"), ("v.index", "i")]),
}


# ------------------------------------------------------------------------------------------ translate
def _pruned(fn: ast.FunctionDef, skip_then_of: tuple = ()):
    """a copy of the function in which the THEN-branch of every `if <test>` with test in skip_then_of is emptied
    (the else branch is kept): code paths the model does not mirror are not pinned"""
    if not skip_then_of:
        return fn
    fn = _copy.deepcopy(fn)
    for n in ast.walk(fn):
        if isinstance(n, ast.If) and ast.unparse(n.test) in skip_then_of:
            n.body = [ast.Pass()]
    return fn


def _shape(fn: ast.FunctionDef, skip_then_of: tuple = ()) -> list:
    out = []

    def visit(n):
        for ch in ast.iter_child_nodes(n):
            if isinstance(ch, ast.While):
                out.append("while " + ast.unparse(ch.test))
            elif isinstance(ch, ast.If):
                out.append("if " + ast.unparse(ch.test))
            elif isinstance(ch, ast.For):
                out.append("for " + ast.unparse(ch.iter))
            visit(ch)

    visit(_pruned(fn, skip_then_of))
    return out


CAST_CLASS_NAMES = {"Cast", "TryCast", "JSONCast"}


def cast_type_reads() -> list:
    """every site outside sqlglot/expressions and serde.py that reads `.type` / `._type` of a name known to hold a
    cast-class node: a parameter annotated exp.Cast / TryCast / JSONCast, the node parameter of a cast_sql / trycast_sql /
    jsoncast_sql handler, or a name narrowed by isinstance(name, exp.Cast…) in the same function.  After load() such a
    node carries a materialised `_type` (a detached copy of its target) where the parsed tree had None: a reader of that
    field sees a different object than a reader of `.to`."""
    import glob

    def ann_is_cast(a):
        if a is None:
            return False
        text = ast.unparse(a)
        return any(("exp." + c) in text or text == c for c in CAST_CLASS_NAMES)

    sites = set()
    for f in sorted(glob.glob(os.path.join(REPO, "sqlglot", "**", "*.py"), recursive=True)):
        rel = os.path.relpath(f, REPO).replace(os.sep, "/")
        if rel.startswith("sqlglot/expressions/") or rel == "sqlglot/serde.py":
            continue
        try:
            tree = ast.parse(open(f, encoding="utf-8").read())
        except Exception:
            continue
        for fn in [n for n in ast.walk(tree) if isinstance(n, ast.FunctionDef)]:
            names = set()
            args = fn.args.args + fn.args.kwonlyargs
            for a in args:
                if ann_is_cast(a.annotation):
                    names.add(a.arg)
            if fn.name in ("cast_sql", "trycast_sql", "jsoncast_sql") and len(args) >= 2:
                names.add(args[1].arg)
            for n in ast.walk(fn):
                if isinstance(n, ast.Call) and isinstance(n.func, ast.Name) and n.func.id == "isinstance" and len(n.args) == 2 \
                        and isinstance(n.args[0], ast.Name):
                    cls_names = ast.unparse(n.args[1]).replace("exp.", "").replace("(", "").replace(")", "").replace(" ", "").split(",")
                    if any(c in CAST_CLASS_NAMES for c in cls_names):
                        names.add(n.args[0].id)
            if not names:
                continue
            for n in ast.walk(fn):
                if isinstance(n, ast.Attribute) and n.attr in ("type", "_type") and isinstance(n.value, ast.Name) \
                        and n.value.id in names:
                    sites.add(f"{rel}:{fn.name}:{ast.unparse(n)}")
    return sorted(sites)


def empty_vs_absent_readers() -> list:
    """every site outside sqlglot/expressions and serde.py that tells an arg that is PRESENT with `None` / `[]` from an
    ABSENT one — exactly what `dump` does not record and `norm` erases:  `"k" in x.args` / `not in` (None, [] vs absent),
    `x.args.get("k") is (not) None` ([] vs absent/None),  `x.args[...] == []`."""
    import glob

    sites = set()
    for f in sorted(glob.glob(os.path.join(REPO, "sqlglot", "**", "*.py"), recursive=True)):
        rel = os.path.relpath(f, REPO).replace(os.sep, "/")
        if rel.startswith("sqlglot/expressions/") or rel == "sqlglot/serde.py":
            continue
        try:
            tree = ast.parse(open(f, encoding="utf-8").read())
        except Exception:
            continue
        for fn in [n for n in ast.walk(tree) if isinstance(n, ast.FunctionDef)]:
            for n in ast.walk(fn):
                if not (isinstance(n, ast.Compare) and len(n.ops) == 1):
                    continue
                op, left, right = n.ops[0], n.left, n.comparators[0]
                if isinstance(op, (ast.In, ast.NotIn)) and isinstance(left, ast.Constant) and isinstance(left.value, str) \
                        and isinstance(right, ast.Attribute) and right.attr == "args":
                    sites.add(f"{rel}:{fn.name}:{ast.unparse(n)}")
                elif isinstance(op, (ast.Is, ast.IsNot)) and isinstance(right, ast.Constant) and right.value is None \
                        and isinstance(left, ast.Call) and isinstance(left.func, ast.Attribute) and left.func.attr == "get" \
                        and isinstance(left.func.value, ast.Attribute) and left.func.value.attr == "args" and left.args \
                        and isinstance(left.args[0], ast.Constant):
                    sites.add(f"{rel}:{fn.name}:{ast.unparse(n)}")
                elif isinstance(op, (ast.Eq, ast.NotEq)) and isinstance(right, ast.List) and not right.elts \
                        and ".args" in ast.unparse(left):
                    sites.add(f"{rel}:{fn.name}:{ast.unparse(n)}")
    return sorted(sites)


def translate(chk: Check) -> str:
    src = open(os.path.join(REPO, "sqlglot", "serde.py"), encoding="utf-8").read()
    tree = ast.parse(src)
    consts: dict = {}
    fns: dict = {}
    for n in tree.body:
        if isinstance(n, ast.Assign) and len(n.targets) == 1 and isinstance(n.targets[0], ast.Name) \
                and isinstance(n.value, ast.Constant) and isinstance(n.value.value, str):
            consts[n.targets[0].id] = n.value.value
        if isinstance(n, ast.FunctionDef):
            fns[n.name] = n
    problems = []
    for k in EXPECTED_KEYS:
        if k not in consts:
            problems.append(f"constant {k} not found")
            consts[k] = "?" + k
    shape_ok = True
    for name, want in EXPECTED_SHAPE.items():
        got = _shape(fns[name]) if name in fns else None
        if got != want and got not in SHAPE_VARIANTS.get(name, []):
            shape_ok = False
            problems.append(f"serde.{name} control structure differs from the modelled one: {got}")
    for (fname, target), want in EXPECTED_ASSIGN.items():
        got = []
        if fname in fns:
            for n in ast.walk(fns[fname]):
                if isinstance(n, ast.Assign) and len(n.targets) == 1 and ast.unparse(n.targets[0]) == target:
                    got.append(ast.unparse(n.value))
        wants = want if isinstance(want, list) else [want]
        if got != wants:
            shape_ok = False
            problems.append(f"serde.{fname}: assignment(s) to {target} differ from the modelled ones: {got}")
    copies = {}
    for (fname, target), forms in COMMENTS_FORMS.items():
        got = []
        if fname in fns:
            for n in ast.walk(fns[fname]):
                if isinstance(n, ast.Assign) and len(n.targets) == 1 and ast.unparse(n.targets[0]) == target:
                    got.append(ast.unparse(n.value))
        if len(got) == 1 and got[0] in forms:
            copies[fname] = forms[got[0]]
        else:
            copies[fname] = False
            shape_ok = False
            problems.append(f"serde.{fname}: assignment(s) to {target} not recognised: {got}")
    # the node's _meta dict is built by the comprehension directly under `if meta is not None:` (never the payload's own)
    builds_meta = False
    if "_load" in fns:
        for n in ast.walk(fns["_load"]):
            if isinstance(n, ast.If) and ast.unparse(n.test) == "meta is not None" and not n.orelse and len(n.body) == 1:
                b = n.body[0]
                builds_meta = (isinstance(b, ast.Assign) and ast.unparse(b.targets[0]) == "meta"
                               and isinstance(b.value, ast.DictComp))
    chk.cov["share_policy"] = {"loadCopiesComments": copies.get("_load"), "loadBuildsMetaDict": builds_meta,
                               "dumpCopiesComments": copies.get("dump")}
    # Expression.__reduce__ must delegate to serde (pickle = load . dump)
    core = ast.parse(open(os.path.join(REPO, "sqlglot", "expressions", "core.py"), encoding="utf-8").read())
    reduce_ok = False
    for cls in [n for n in core.body if isinstance(n, ast.ClassDef) and n.name == "Expression"]:
        for fn in [n for n in cls.body if isinstance(n, ast.FunctionDef) and n.name == "__reduce__"]:
            rets = [n for n in ast.walk(fn) if isinstance(n, ast.Return)]
            reduce_ok = len(rets) == 1 and rets[0].value is not None and ast.unparse(rets[0].value) == EXPECTED_REDUCE
    if not reduce_ok:
        problems.append("Expression.__reduce__ no longer returns (load, (dump(self),))")
    # the `type` property (getter) and `Cast.to`: the branches Model/Serde.lean `typeProp` mirrors
    type_ok = False
    for cls in [n for n in core.body if isinstance(n, ast.ClassDef) and n.name == "Expression"]:
        for fn in [n for n in cls.body if isinstance(n, ast.FunctionDef) and n.name == "type"
                   and any(isinstance(d, ast.Name) and d.id == "property" for d in n.decorator_list)]:
            rets = [ast.unparse(n.value) for n in sorted((n for n in ast.walk(fn) if isinstance(n, ast.Return)
                                                         and n.value is not None), key=lambda n: n.lineno)]
            type_ok = _shape(fn) == ["if self.is_data_type", "if self.is_cast"] and \
                rets == ["self", "self._type or self.to", "self._type"]
    if not type_ok:
        shape_ok = False
        problems.append("Expression.type getter differs from the modelled one (is_data_type -> self; is_cast -> _type or to; _type)")
    _, exp_mod, _ = sg()
    live = expression_classes()
    cast_classes = sorted(class_name(c()) for c in live if getattr(c, "is_cast", False))
    dt_classes = sorted(class_name(c()) for c in live if getattr(c, "is_data_type", False))
    to_ok = all(isinstance(getattr(c, "to", None), property) and "to" in c.arg_types for c in live if getattr(c, "is_cast", False))
    if not to_ok or not cast_classes or not dt_classes or not [c for c in live if getattr(c, "is_cast", False)]:
        shape_ok = False
        problems.append("is_cast classes without a `to` property/arg, or empty class tables")
    # which field dump reads for TYPE: the `type` property (Cast falls back to `to`, DataType is itself) or raw `_type`
    dumps_raw_type = "dump" in fns and RAW_TYPE_GUARD in _shape(fns["dump"])
    if dumps_raw_type:
        vals = [ast.unparse(n.value) for n in ast.walk(fns["dump"]) if isinstance(n, ast.Assign) and len(n.targets) == 1
                and ast.unparse(n.targets[0]) == "payload[TYPE]"]
        if vals != ["dump(node._type)"]:
            shape_ok = False
            problems.append(f"serde.dump: TYPE payload not recognised: {vals}")
        cast_classes, dt_classes = [], []          # the model's `type` view is the identity then
    chk.cov["dumps_raw_type"] = dumps_raw_type
    chk.cov["type_rules"] = {"cast": cast_classes, "data_type": dt_classes}
    # which face of a DType member travels: dump writes `node.value` / `node.name`; _load reads `exp.DType(x)` (by value)
    # / `exp.DType[x]` (by name); a decode anywhere else (e.g. a name-keyed table inside `load`) is "other"
    dump_by = load_by = "other"
    if "dump" in fns:
        vals = [ast.unparse(n.value) for n in ast.walk(fns["dump"]) if isinstance(n, ast.Assign) and len(n.targets) == 1
                and ast.unparse(n.targets[0]) == "payload[VALUE]"]
        if "node.value" in vals and "node.name" not in vals:
            dump_by = "value"
        elif "node.name" in vals and "node.value" not in vals:
            dump_by = "name"
    if "_load" in fns:
        rets = [ast.unparse(n.value) for n in ast.walk(fns["_load"]) if isinstance(n, ast.Return) and n.value is not None]
        if "exp.DType(payload[VALUE])" in rets:
            load_by = "value"
        elif "exp.DType[payload[VALUE]]" in rets:
            load_by = "name"
    if "load" in fns and "DATA_TYPE" in ast.unparse(fns["load"]):
        load_by = "other"       # the model decodes DType members in _load only
    dtype_table = [(d.name, d.value) for d in exp_mod.DType]
    chk.cov["enum_codec"] = {"dump": dump_by, "load": load_by, "members": len(dtype_table),
                             "name_ne_value": [n for n, v in dtype_table if n != v]}
    if dump_by == "other" or load_by == "other":
        problems.append(f"DType codec not recognised (dump: {dump_by}, load: {load_by})")
    for cls in [n for n in core.body if isinstance(n, ast.ClassDef) and n.name == "Expression"]:
        found = {fn.name: fn for fn in cls.body if isinstance(fn, ast.FunctionDef)}
        for name, (want_shape, want_assign) in EXPECTED_CORE.items():
            fn = found.get(name)
            skip = CORE_SKIP_THEN.get(name, ())
            got_shape = _shape(fn, skip) if fn else None
            got_assign = [(ast.unparse(n.targets[0]), ast.unparse(n.value)) for n in ast.walk(_pruned(fn, skip))
                          if isinstance(n, ast.Assign) and len(n.targets) == 1] if fn else None
            if got_shape != want_shape or got_assign != want_assign:
                shape_ok = False
                problems.append(f"Expression.{name} differs from the modelled one: {got_shape} {got_assign}")
    for p in problems:
        chk.broken.append({"kind": "translator", "what": "C12 translator: structure changed: " + p})
        chk.note("translator: " + p)
    chk.cov["serde_constants"] = {k: consts[k] for k in EXPECTED_KEYS}
    chk.cov["serde_shape_ok"] = shape_ok
    lines = ["-- GENERATED by vf/props/c12.py from sqlglot/serde.py and sqlglot/expressions/core.py. Do not edit.",
             "namespace SqlglotModel.Generated.C12"]
    for k in EXPECTED_KEYS:
        lines.append(f"def {LEAN_KEY_NAMES[k]} : String := {lean_str(consts[k])}")
    lines.append("def allKeys : List String := [keyIndex, keyArgKey, keyIsArray, keyClass, keyType, keyComments, keyMeta, keyValue]")
    lines.append("-- the guards of dump / load / _load are the ones Model/Serde.lean mirrors (see EXPECTED_SHAPE in c12.py)")
    lines.append(f"def shapeAsModelled : Bool := {'true' if shape_ok else 'false'}")
    lines.append("-- Expression.__reduce__ returns (load, (dump(self),)): pickling is load . dump")
    lines.append(f"def reduceViaSerde : Bool := {'true' if reduce_ok else 'false'}")
    lines.append("-- classes taking the special branches of Expression.type (live class attributes is_cast / is_data_type)")
    lines.append("def castClasses : List String := [" + ", ".join(lean_str(c) for c in cast_classes) + "]")
    lines.append("def dataTypeClasses : List String := [" + ", ".join(lean_str(c) for c in dt_classes) + "]")
    # Cast.is_type must look at the target (`self.to`), not at `_type`
    cast_is_type_ok = False
    try:
        fsrc = ast.parse(open(os.path.join(REPO, "sqlglot", "expressions", "functions.py"), encoding="utf-8").read())
        for cls in [n for n in fsrc.body if isinstance(n, ast.ClassDef) and n.name == "Cast"]:
            for fn in [n for n in cls.body if isinstance(n, ast.FunctionDef) and n.name == "is_type"]:
                rets = [ast.unparse(n.value) for n in ast.walk(fn) if isinstance(n, ast.Return) and n.value is not None]
                cast_is_type_ok = rets == ["self.to.is_type(*dtypes)"]
    except Exception:
        pass
    eva = empty_vs_absent_readers()
    chk.cov["empty_vs_absent_readers"] = eva
    lines.append("-- sites that tell a present-but-None/[] arg from an absent one (see empty_vs_absent_readers in c12.py)")
    lines.append("def emptyVsAbsentReaders : List String := [" + ", ".join(lean_str(x) for x in eva) + "]")
    reads = cast_type_reads()
    chk.cov["cast_type_reads"] = reads
    lines.append("-- sites that read `.type` / `._type` of a cast-class node (see cast_type_reads in c12.py); Cast.is_type uses self.to")
    lines.append("def castTypeReads : List String := [" + ", ".join(lean_str(x) for x in reads) + "]")
    lines.append(f"def castIsTypeUsesTo : Bool := {'true' if cast_is_type_ok else 'false'}")
    raw_arg_classes = sorted(class_name(c()) for c in live if getattr(c, "_hash_raw_args", False))
    chk.cov["hash_raw_arg_classes"] = raw_arg_classes
    lines.append("-- classes whose __hash__ folds raw arg values (_hash_raw_args)")
    lines.append("def hashRawArgClasses : List String := [" + ", ".join(lean_str(c) for c in raw_arg_classes) + "]")
    lines.append("-- the DType codec: which face of a member dump writes / _load reads, and the live (name, value) table")
    lines.append(f"def dumpDTypeBy : String := {lean_str(dump_by)}")
    lines.append(f"def loadDTypeBy : String := {lean_str(load_by)}")
    lines.append("def dtypeTable : List (String × String) := [" +
                 ", ".join(f"({lean_str(n)}, {lean_str(v)})" for n, v in dtype_table) + "]")
    lines.append("-- how _load / dump pass mutable containers on (SharePolicy of Model/Serde.lean)")
    lines.append(f"def loadCopiesComments : Bool := {'true' if copies.get('_load') else 'false'}")
    lines.append(f"def loadBuildsMetaDict : Bool := {'true' if builds_meta else 'false'}")
    lines.append(f"def dumpCopiesComments : Bool := {'true' if copies.get('dump') else 'false'}")
    lines.append("end SqlglotModel.Generated.C12")
    return "\n".join(lines) + "\n"


# ------------------------------------------------------------------------------------------ the real side
def sg():
    import sqlglot
    from sqlglot import exp, serde

    return sqlglot, exp, serde


class Unrep(Exception):
    """a Python value outside the model's universe (kind, where)"""

    def __init__(self, kind, where):
        super().__init__(f"{kind} at {where}")
        self.kind = kind
        self.where = where


def class_name(n) -> str:
    cls = type(n)
    k = cls.__qualname__
    if cls.__module__ != "sqlglot.expressions":
        k = f"{cls.__module__}.{k}"
    return k


def conv_raw(v, where, lenient=False):
    if v is None or type(v) in (bool, int, str):
        return v
    if type(v) is list:
        return [conv_raw(x, where, lenient) for x in v]
    if lenient:
        _, exp, _ = sg()
        if isinstance(v, exp.Expr):
            return {"$expr": norm(conv(v, where, 0, True))}
        return {"$repr": type(v).__name__}       # (not repr: object addresses differ between equal copies)
    raise Unrep(type(v).__name__, where)


# correspondence feeds the model trees with their raw `_type` fields (the model applies the `type` property: Cast falls
# back to `to`, a DataType is its own type); the search oracle reads `.type` (the public view)
_RAW_TYPE = False


def conv(v, where="root", depth=0, lenient=False):
    """the harness's own reading of a tree (independent of serde): the JSON tree format of Driver/C12.lean"""
    _, exp, _ = sg()
    if depth > 400:
        raise Unrep("too-deep-or-cyclic", where)
    if isinstance(v, exp.Expr):
        ty = v._type if _RAW_TYPE else v.type
        tj = None
        if ty is not None and ty is not v and (_RAW_TYPE or ty):
            tj = conv(ty, where + ".type", depth + 1, lenient)
        cm = v.comments
        if cm is not None:
            if type(cm) is not list or any(type(c) is not str for c in cm):
                raise Unrep("comments:" + type(cm).__name__, where)
            cm = list(cm)
        mt = v._meta
        if mt is not None:
            if type(mt) is not dict or any(type(k) is not str for k in mt):
                raise Unrep("meta:" + type(mt).__name__, where)
            mt = {k: ({"$e": conv(x, f"meta[{k}]", depth + 1, lenient)} if isinstance(x, exp.Expr)
                      else conv_raw(x, f"meta[{k}]", lenient)) for k, x in mt.items()}
        args = []
        name = type(v).__name__
        for k, a in v.args.items():
            if type(a) is list:
                args.append([k, 1, [conv(x, f"{name}.{k}", depth + 1, lenient) for x in a]])
            else:
                args.append([k, 0, conv(a, f"{name}.{k}", depth + 1, lenient)])
        return {"c": class_name(v), "t": tj, "o": cm, "m": mt, "a": args}
    if type(v) is exp.DType:
        return {"d": v.value}
    return {"r": conv_raw(v, where, lenient)}


def norm(t):
    """what a payload records of a tree: None-valued args, empty-list args and `comments == []` are not recorded"""
    if "c" not in t:
        return t
    args = []
    for k, kind, v in t["a"]:
        if kind == 0:
            if v == {"r": None}:
                continue
            args.append([k, 0, norm(v)])
        else:
            if not v:
                continue
            args.append([k, 1, [norm(x) for x in v]])
    m = t["m"]
    if m is not None:
        m = {k: ({"$e": norm(v["$e"])} if isinstance(v, dict) and "$e" in v else v) for k, v in m.items()}
    return {"c": t["c"], "t": None if t["t"] is None else norm(t["t"]), "o": t["o"] or None, "m": m, "a": args}


def build(t):
    """a real object from a JSON tree (used for replay / minimisation only)"""
    _, exp, _ = sg()
    if "d" in t:
        return exp.DType(t["d"])
    if "r" in t:
        return _copy.deepcopy(t["r"])
    name = t["c"]
    mod, _, cls = name.rpartition(".")
    klass = getattr(__import__(mod, fromlist=[cls]) if mod else exp, cls)
    n = klass()
    for k, kind, v in t["a"]:
        if kind == 0:
            val = build(v)
            n.args[k] = val
        else:
            val = [build(x) for x in v]
            n.args[k] = val
        n._set_parent(k, val)
    if t["t"] is not None:
        n._type = build(t["t"])
    n.comments = None if t["o"] is None else list(t["o"])
    n._meta = None if t["m"] is None else {
        k: (build(v["$e"]) if isinstance(v, dict) and "$e" in v else _copy.deepcopy(v)) for k, v in t["m"].items()}
    return n


def skeleton(t, depth=0) -> str:
    if "d" in t:
        return "DType"
    if "r" in t:
        r = t["r"]
        return {type(None): "None", bool: "bool", int: "int", str: "str", list: "list"}.get(type(r), type(r).__name__)
    name = t["c"].rsplit(".", 1)[-1]
    if depth >= 2:
        return name
    parts = []
    for k, kind, v in t["a"]:
        if kind == 0:
            parts.append(f"{k}={skeleton(v, depth + 1)}")
        else:
            parts.append(f"{k}=[{','.join(sorted(set(skeleton(x, depth + 1) for x in v)))}]")
    deco = ("^t" if t["t"] is not None else "") + ("^o" if t["o"] is not None else "") + ("^m" if t["m"] is not None else "")
    return f"{name}{deco}({','.join(parts)})"


# ------------------------------------------------------------------------------------------ generators
SQLS = [
    "SELECT a, b AS c, t.* FROM t WHERE a = 1 AND b <> 'x' OR NOT c IS NULL",
    "SELECT /* hint */ a /* c1 */, b -- c2\nFROM t /* c3 */ WHERE x > 1 /* c4 */",
    "SELECT CAST(a AS DECIMAL(10, 2)), CAST(b AS ARRAY<STRUCT<x INT, y ARRAY<TEXT>>>), TRY_CAST(c AS MAP<TEXT, INT>) FROM t",
    "SELECT CAST(a AS VARCHAR(10)), b::TIMESTAMP, CAST(c AS INT[]) FROM t",
    "SELECT 1, 1.5, 1e10, 'str', N'nat', X'FF', B'101', TRUE, FALSE, NULL, -1, +2",
    "SELECT DATE '2020-01-01', TIMESTAMP '2020-01-01 00:00:00', INTERVAL '1' DAY, INTERVAL 2 MONTH",
    "SELECT SUM(a) OVER (PARTITION BY b ORDER BY c DESC NULLS LAST ROWS BETWEEN 1 PRECEDING AND CURRENT ROW) FROM t",
    "SELECT COUNT(DISTINCT a), COUNT(*), ARRAY_AGG(a ORDER BY b), MAX(a) FILTER(WHERE b > 0) FROM t GROUP BY c HAVING COUNT(*) > 1",
    "WITH x AS (SELECT 1 AS a), y AS (SELECT a FROM x) SELECT * FROM y UNION ALL SELECT * FROM x ORDER BY 1 LIMIT 10 OFFSET 2",
    "WITH RECURSIVE r(n) AS (SELECT 1 UNION ALL SELECT n + 1 FROM r WHERE n < 5) SELECT n FROM r",
    "SELECT a FROM t1 JOIN t2 ON t1.id = t2.id LEFT JOIN t3 USING (id) CROSS JOIN t4 FULL OUTER JOIN t5 ON TRUE",
    "SELECT CASE WHEN a > 1 THEN 'x' WHEN a < 0 THEN 'y' ELSE 'z' END, CASE a WHEN 1 THEN 2 END FROM t",
    "SELECT a IN (1, 2, 3), b IN (SELECT c FROM u), a BETWEEN 1 AND 2, a LIKE 'x%' ESCAPE '!', EXISTS(SELECT 1) FROM t",
    "SELECT x[0], s.f.g, m['k'], a || b, a % 2, a & b, a | b, ~a, a << 1 FROM t",
    "SELECT COALESCE(a, b, 0), NULLIF(a, 0), IF(a, 1, 2), GREATEST(a, b), ABS(-1), ROUND(a, 2), SUBSTRING(s, 1, 2) FROM t",
    "SELECT EXTRACT(YEAR FROM d), DATE_TRUNC('month', d), DATE_ADD(d, INTERVAL 1 DAY), CURRENT_DATE, CURRENT_TIMESTAMP FROM t",
    "SELECT * FROM t TABLESAMPLE (10 PERCENT) WHERE a = ? AND b = :name AND c = @v",
    "SELECT * FROM (SELECT a FROM t) AS s(a) WHERE a > ALL (SELECT b FROM u) AND a = ANY (SELECT b FROM u)",
    "SELECT a FROM t LATERAL VIEW EXPLODE(arr) x AS e",
    "SELECT * FROM UNNEST([1, 2, 3]) AS u(x) WITH OFFSET AS o",
    "SELECT * FROM t PIVOT(SUM(a) FOR b IN ('x', 'y'))",
    "SELECT a FROM t QUALIFY ROW_NUMBER() OVER (PARTITION BY b ORDER BY c) = 1",
    "SELECT DISTINCT ON (a) a, b FROM t ORDER BY a, b DESC",
    "SELECT a FROM t WINDOW w AS (PARTITION BY b) FOR UPDATE",
    "SELECT a -> 'b', a ->> 'c', JSON_EXTRACT(j, '$.a.b[0]') FROM t",
    "SELECT LIST_TRANSFORM(l, x -> x + 1), FILTER(l, (x, y) -> x > y) FROM t",
    "SELECT STRUCT(1 AS a, 'x' AS b), ARRAY[1, 2], MAP(ARRAY['a'], ARRAY[1]), {'a': 1}",
    "INSERT INTO t (a, b) VALUES (1, 'x'), (2, 'y')",
    "INSERT INTO t SELECT * FROM u ON CONFLICT (a) DO UPDATE SET b = 1 RETURNING a",
    "UPDATE t SET a = 1, b = b + 1 FROM u WHERE t.id = u.id",
    "DELETE FROM t WHERE a IN (SELECT a FROM u) RETURNING *",
    "MERGE INTO t USING s ON t.id = s.id WHEN MATCHED THEN UPDATE SET a = s.a WHEN NOT MATCHED THEN INSERT (id, a) VALUES (s.id, s.a)",
    "CREATE TABLE t (a INT PRIMARY KEY, b VARCHAR(10) NOT NULL DEFAULT 'x', c DECIMAL(10, 2) REFERENCES u (c), CONSTRAINT k UNIQUE (a, b))",
    "CREATE TABLE IF NOT EXISTS db.t (a INT COMMENT 'c', b ARRAY<INT>) PARTITIONED BY (b) COMMENT 'tbl'",
    "CREATE OR REPLACE VIEW v (a, b) AS SELECT 1, 2",
    "CREATE TEMPORARY TABLE t AS SELECT * FROM u",
    "CREATE INDEX i ON t (a DESC, b)",
    "CREATE FUNCTION f(x INT) RETURNS INT AS 'select 1'",
    "ALTER TABLE t ADD COLUMN c INT, DROP COLUMN d",
    "ALTER TABLE t RENAME TO u",
    "DROP TABLE IF EXISTS a.b.c CASCADE",
    "TRUNCATE TABLE t",
    "SET x = 1",
    "USE db",
    "SHOW TABLES",
    "DESCRIBE t",
    "GRANT SELECT ON t TO u",
    "COMMIT",
    "BEGIN",
    "SELECT \"quoted col\", `bt`, [br] FROM \"S\".\"T\"",
    "SELECT a FROM t WHERE (a, b) IN ((1, 2), (3, 4)) AND a IS DISTINCT FROM b",
    "SELECT TRIM(BOTH 'x' FROM s), POSITION('a' IN s), OVERLAY(s PLACING 'x' FROM 1 FOR 2), s COLLATE \"de_DE\" FROM t",
    "SELECT a FROM t ORDER BY a ASC NULLS FIRST, b DESC FETCH FIRST 5 ROWS ONLY",
    "SELECT * FROM t AS OF TIMESTAMP '2020-01-01'",
    "SELECT x.a.b.c.d FROM x",
    "SELECT 1 UNION SELECT 2 INTERSECT SELECT 3 EXCEPT SELECT 4",
    "(SELECT 1) UNION (SELECT 2) ORDER BY 1",
    "SELECT a FROM t GROUP BY ROLLUP (a, b), CUBE (c), GROUPING SETS ((a), (b, c), ())",
    "VALUES (1, 2), (3, 4)",
    "SELECT * FROM generate_series(1, 10) AS g(i), LATERAL (SELECT i * 2) AS l",
    "SELECT a FROM t1, t2 WHERE t1.x = t2.x(+)",
    "SELECT @@version, $1, ${x}, :1",
    "SELECT a FROM t WHERE a RLIKE 'x' OR a SIMILAR TO 'y' OR a ILIKE ANY ('a', 'b')",
    "SELECT CAST('1' AS INT64), SAFE_CAST(x AS STRING), PARSE_JSON('{}'), x.y[OFFSET(0)] FROM t",
    "SELECT TOP 5 a FROM t WITH (NOLOCK)",
    "SELECT a FROM t SAMPLE (5 ROWS)",
    "SELECT ARRAY(SELECT x FROM u), (SELECT MAX(y) FROM u) AS m FROM t",
    "SELECT FIRST_VALUE(a IGNORE NULLS) OVER (ORDER BY b), LAG(a, 1, 0) OVER w, NTH_VALUE(a, 2) FROM LAST OVER w FROM t WINDOW w AS (ORDER BY c)",
    "SELECT PERCENTILE_CONT(0.5) WITHIN GROUP (ORDER BY a) FROM t",
    "SELECT a::INT::TEXT, (a + b) * c / d - e, a AND (b OR c), NOT (a = b) FROM t",
    "SELECT a, COUNT(*) AS n FROM t GROUP BY ALL ORDER BY ALL",
    "COPY t FROM 's3://x' WITH (FORMAT CSV)",
    "ANALYZE TABLE t COMPUTE STATISTICS",
    "CACHE TABLE t AS SELECT 1",
    "EXPLAIN SELECT 1",
    "PRAGMA foo",
    "COMMENT ON TABLE t IS 'x'",
    "SELECT a FROM t -- trailing comment",
    "SELECT /*+ BROADCAST(t) */ a FROM t",
    "SELECT 1 /* sqlglot.meta k=v, flag */",
    "SELECT a FROM b.c.d AS e (x, y) WHERE e.x = 1",
    "SELECT x FROM t WHERE x = 'it''s' AND y = 'a\\nb'",
    "SELECT DATE_DIFF('day', a, b), DATEDIFF(a, b), TIMESTAMP_TRUNC(ts, HOUR), STR_TO_TIME(s, '%Y'), TIME_TO_STR(t, '%H') FROM t",
]

SCHEMA = {"t": {"a": "int", "b": "text", "c": "double", "d": "date", "s": "text", "x": "int", "id": "int", "l": "array<int>", "j": "json"},
          "u": {"a": "int", "b": "text", "c": "double", "id": "int", "x": "int", "y": "int"},
          "x": {"a": "int", "b": "int"}, "y": {"a": "int", "b": "int", "c": "int"}, "z": {"a": "int", "c": "int"}}


def all_dialects():
    """the `Dialects` enum has no singlestore entry: enum ∪ sqlglot.dialects.DIALECT_MODULE_NAMES (34 + base)"""
    import sqlglot.dialects as dialects_pkg
    from sqlglot.dialects.dialect import Dialects

    names = {d.value for d in Dialects if d.value} | set(getattr(dialects_pkg, "DIALECT_MODULE_NAMES", ()))
    names.discard("dialect")
    return [None] + sorted(names)


def fixture_sqls(chk: Check) -> list:
    out = []
    for rel in ("tests/fixtures/identity.sql", "tests/fixtures/optimizer/annotate_types.sql",
                "tests/fixtures/optimizer/qualify_columns.sql", "tests/fixtures/optimizer/annotate_functions.sql"):
        p = os.path.join(REPO, rel)
        if not os.path.exists(p):
            continue
        for line in open(p, encoding="utf-8").read().splitlines():
            line = line.strip()
            if line and not line.startswith("--") and not line.startswith("#") and len(line) < 600:
                out.append(line.rstrip(";"))
    return out


def quiet_logging():
    import logging

    logging.getLogger("sqlglot").setLevel(logging.CRITICAL)


def parsed_trees(chk: Check, n_sql: int, per_sql: int):
    """yields (origin, tree): raw parse, annotate_types, qualify(+annotate) variants in several read dialects"""
    sqlglot, exp, _ = sg()
    from sqlglot.optimizer.annotate_types import annotate_types
    from sqlglot.optimizer.qualify import qualify

    rng = chk.rng
    dialects = all_dialects()
    fx = fixture_sqls(chk)
    pool = list(SQLS) + (rng.sample(fx, min(len(fx), n_sql)) if fx else [])
    chk.cov["sql_pool"] = len(pool)
    for sql in pool:
        ds = [None] + rng.sample(dialects, per_sql)
        for d in ds:
            try:
                trees = sqlglot.parse(sql, read=d)
            except Exception:
                chk.count("parse:error")
                continue
            for t in trees:
                if t is None:
                    continue
                yield ({"sql": sql, "dialect": d, "xf": "raw"}, t)
                r = rng.random()
                if r < 0.5:
                    try:
                        yield ({"sql": sql, "dialect": d, "xf": "annotate"}, annotate_types(t.copy(), dialect=d))
                    except Exception:
                        chk.count("annotate:error")
                elif r < 0.8:
                    try:
                        q = qualify(t.copy(), schema=SCHEMA, dialect=d, validate_qualify_columns=False)
                        yield ({"sql": sql, "dialect": d, "xf": "qualify"}, q)
                        yield ({"sql": sql, "dialect": d, "xf": "qualify+annotate"}, annotate_types(q.copy(), schema=SCHEMA, dialect=d))
                    except Exception:
                        chk.count("qualify:error")


def expression_classes():
    _, exp, _ = sg()
    acc: list = []
    seen = set()

    def rec(c):
        for s in c.__subclasses__():
            if s not in seen:
                seen.add(s)
                if issubclass(s, exp.Expression):
                    acc.append(s)
                rec(s)

    rec(exp.Expr)
    return sorted(acc, key=lambda c: (c.__module__, c.__qualname__))


ARG_KINDS = ["node", "nodes", "str", "int", "true", "false", "none", "empty", "scalars", "with_none", "nested", "dtype", "mixed"]
STRS = ["x", "", "A b", "naïve", "it's", "a\"b", "\\", "\n", "DataType.Type", "0", "🙂"]


def leaf(rng, exp):
    r = rng.randrange(9)
    if r == 0:
        return exp.Identifier(this=rng.choice(STRS), quoted=rng.random() < 0.5)
    if r == 1:
        return exp.Literal(this=rng.choice(["1", "1.5", "x", ""]), is_string=rng.random() < 0.5)
    if r == 2:
        return exp.Column(this=exp.Identifier(this="c", quoted=False), table=exp.Identifier(this="t", quoted=True))
    if r == 3:
        return exp.Null()
    if r == 4:
        return exp.Boolean(this=rng.random() < 0.5)
    if r == 5:
        return exp.Star()
    if r == 6:
        return exp.DataType(this=rng.choice(list(exp.DType)), nested=False)
    if r == 7:
        return exp.Var(this=rng.choice(STRS))
    return exp.Paren(this=exp.Literal(this="1", is_string=False))


def rand_meta(rng, exp=None):
    r = rng.random()
    if r < 0.55:
        return None
    if r < 0.65:
        return {}
    m = {}
    for k in rng.sample(["line", "col", "start", "end", "k", "flag", "nonnull", "s", "l"], rng.randint(1, 3)):
        m[k] = rng.choice([0, 1, 17, True, False, "v", "", None, [1, "a"], -3])
    if exp is not None and rng.random() < 0.3:
        # an Expression-valued entry (annotate_types stores a DataType under "query_type")
        v = rng.choice([exp.DataType.build("STRUCT<a INT, b TEXT>"), exp.DataType(this=exp.DType.INT, nested=False, kind=None),
                        exp.Identifier(this="m", quoted=False), exp.Tuple(expressions=[exp.Null(), exp.Star()])])
        if rng.random() < 0.3:
            v.comments = ["in meta"]
            v._meta = {"deep": 1}
        m[rng.choice(["query_type", "e"])] = v
    return m


def rand_comments(rng):
    r = rng.random()
    if r < 0.6:
        return None
    if r < 0.7:
        return []
    return rng.choice([["c"], [" a ", "b"], [""], ["/* x */", "-- y", "z\nw"]])


def rand_type(rng, exp):
    r = rng.random()
    if r < 0.6:
        return None
    try:
        dt = exp.DataType.build(rng.choice(["INT", "TEXT", "DECIMAL(10, 2)", "ARRAY<INT>", "STRUCT<a INT, b ARRAY<TEXT>>",
                                            "MAP<TEXT, INT>", "UNKNOWN", "VARCHAR(5)", "TIMESTAMPTZ", "NULL"]))
    except Exception:
        dt = exp.DataType(this=exp.DType.INT)
    if rng.random() < 0.2:
        dt.comments = ["type comment"]
    if rng.random() < 0.2:
        dt._meta = {"m": 1}
    return dt


def arg_value(rng, exp, kind, classes, depth):
    def child():
        if depth <= 0 or rng.random() < 0.6:
            return decorate(rng, exp, leaf(rng, exp))
        return construct(rng, exp, rng.choice(classes), classes, depth - 1)

    if kind == "node":
        return child()
    if kind == "nodes":
        return [child() for _ in range(rng.randint(1, 3))]
    if kind == "str":
        return rng.choice(STRS)
    if kind == "int":
        return rng.choice([0, 1, -1, 2 ** 40, 7])
    if kind == "true":
        return True
    if kind == "false":
        return False
    if kind == "none":
        return None
    if kind == "empty":
        return []
    if kind == "scalars":
        return [rng.choice(["a", 1, True, False, 0, ""]) for _ in range(rng.randint(1, 3))]
    if kind == "with_none":
        return [None, child(), None] if rng.random() < 0.5 else [child(), None]
    if kind == "nested":
        return [[1, "a"], [], [None, [True]]][: rng.randint(1, 3)]
    if kind == "dtype":
        return rng.choice(list(exp.DType))
    if kind == "mixed":
        return [child(), "s", 3, rng.choice(list(exp.DType)), False]
    raise HarnessError("arg kind " + kind)


def decorate(rng, exp, n):
    n.comments = rand_comments(rng)
    n._meta = rand_meta(rng, exp)
    if not isinstance(n, exp.DataType):
        n._type = rand_type(rng, exp)
    return n


REQUIRED_KINDS = [k for k in ARG_KINDS if k not in ("none", "empty")]
# arg names under which parsers store lists: only these get `[]` (an empty list under e.g. `desc` is not a tree any
# parser builds, and generators legitimately tell `[]` from `None` there)
LIST_KEYS = {"actions", "columns", "cube", "except_", "exclude", "expressions", "grouping_sets", "ifs", "indexes", "joins",
             "laterals", "modes", "options", "partition_by", "pivots", "principals", "privileges", "rollup", "tables"}


def construct(rng, exp, cls, classes, depth=1, kinds=None):
    """an instance of `cls` with every arg kind the format has to carry. Kept inside what a tree can be: a required
    arg is never None / [] (nodes index those with args[k]), and the target of a cast is a DataType (the `type`
    property of Cast falls back to it)."""
    n = cls()
    keys = list(cls.arg_types)
    rng.shuffle(keys)                      # insertion order of args is arbitrary for dump / load
    for k in keys:
        required = bool(cls.arg_types[k])
        kind = (kinds or {}).get(k) or rng.choice(ARG_KINDS)
        if kinds is None and not required and rng.random() < 0.35:
            continue
        if required and kind in ("none", "empty"):
            kind = REQUIRED_KINDS[(ARG_KINDS.index(kind) + len(k)) % len(REQUIRED_KINDS)]
        if kind == "empty" and k not in LIST_KEYS:
            kind = "none"
        if k == "to" and getattr(n, "is_cast", False):
            v = decorate(rng, exp, exp.DataType.build(rng.choice(["INT", "TEXT", "DECIMAL(10, 2)", "ARRAY<INT>"])))
        else:
            v = arg_value(rng, exp, kind, classes, depth)
        n.args[k] = v
        n._set_parent(k, v)
    return decorate(rng, exp, n)


def constructed_trees(chk: Check, rounds: int):
    """every Expression subclass, every arg key, with arg kinds rotating so that each kind is hit"""
    _, exp, _ = sg()
    rng = chk.rng
    classes = expression_classes()
    chk.cov["expression_classes"] = len(classes)
    kinds_hit = set()
    n_inst = 0
    for r in range(rounds):
        for ci, cls in enumerate(classes):
            if r == 0:
                # deterministic rotation: arg j of class ci gets kind (ci + j + seed) mod |kinds|
                kinds = {k: ARG_KINDS[(ci + j + chk.seed) % len(ARG_KINDS)] for j, k in enumerate(cls.arg_types)}
                kinds_hit.update(kinds.values())
                t = construct(rng, exp, cls, classes, depth=1, kinds=kinds)
            else:
                t = construct(rng, exp, cls, classes, depth=rng.choice([1, 2]))
            n_inst += 1
            yield ({"constructed": cls.__name__, "round": r}, t)
    chk.cov["arg_kinds_instantiated"] = sorted(kinds_hit)
    chk.cov["constructed_instances"] = n_inst


CAST_SQLS_ALWAYS = [
    "SELECT TRY_CAST(x AS INT)",
    "SELECT TRY_CAST(a AS TEXT), TRY_CAST(b AS TIMESTAMP) FROM t",
    "SELECT CAST(x AS DATE), CAST(y AS VARCHAR(10))",
]
CAST_SQLS_ROTATING = [
    "SELECT CAST(x AS DECIMAL(10, 2))", "SELECT x::DATE", "SELECT SAFE_CAST(x AS STRING)", "SELECT CAST('1' AS DOUBLE) + 1",
    "SELECT DATE '2020-01-01', TIMESTAMP '2020-01-01 00:00:00'", "SELECT CAST(x AS ARRAY<INT>)", "SELECT TRY_CAST(x AS Int32)",
    "SELECT CAST(x AS Nullable(String))", "SELECT TRY_CAST(x AS JSON)", "SELECT CAST(x AS GEOGRAPHY)", "SELECT CAST(x AS TIMESTAMPTZ)",
    "SELECT TRY_CAST(x AS DECIMAL(38, 0))", "SELECT CAST(x AS STRUCT<a INT, b TEXT>)", "SELECT CAST(x AS BIGINT) AS y FROM t WHERE TRY_CAST(z AS DATE) IS NULL",
    "SELECT CAST(x AS INT FORMAT 'fmt')", "SELECT TRY_CAST(x AS DateTime64(3))", "SELECT CAST(x AS CHAR)", "SELECT 1::TEXT::INT",
]


def cast_corpus(chk: Check) -> list:
    """casts / try-casts / typed literals parsed by EVERY dialect (un-annotated and annotated): the trees on which the
    `type` property of a Cast falls back to its target, so that load() hands back a Cast whose `_type` is a detached copy.
    Their SQL is compared in ALL dialects."""
    sqlglot, exp, _ = sg()
    from sqlglot.optimizer.annotate_types import annotate_types

    rng = chk.rng
    out = []
    for d in all_dialects():
        sqls = CAST_SQLS_ALWAYS + (rng.sample(CAST_SQLS_ROTATING, chk.pick(3, len(CAST_SQLS_ROTATING))))
        for i, sql in enumerate(sqls):
            try:
                t = sqlglot.parse_one(sql, read=d)
            except Exception:
                chk.count("cast-corpus:parse-error")
                continue
            out.append(({"sql": sql, "dialect": d, "xf": "raw", "cast_corpus": True}, t))
            if i < chk.pick(1, 99):
                try:
                    out.append(({"sql": sql, "dialect": d, "xf": "annotate", "cast_corpus": True},
                                annotate_types(t.copy(), dialect=d)))
                except Exception:
                    chk.count("cast-corpus:annotate-error")
    chk.cov["cast_corpus_trees"] = len(out)
    return out


EMPTY_SQLS = [
    "CREATE TABLE t ()", "CREATE TABLE child () INHERITS (parent)", "INSERT INTO t () VALUES ()", "SELECT f()",
    "SELECT a IN ()", "SELECT ARRAY[]", "SELECT []", "SELECT STRUCT()", "SELECT IDENTIFIER('f')()", "SELECT ARRAY<INT64>[]",
    "SELECT STRPOS(a, b)", "SELECT INSTR(a, b)", "SELECT LOCATE(b, a)", "SELECT MAP()", "SELECT {}", "SELECT x FROM t GROUP BY ()",
    "SELECT COUNT(*) OVER ()", "INSERT INTO t DEFAULT VALUES", "SELECT ARRAY_CONSTRUCT()", "CALL p()", "SELECT * FROM f()",
    "VALUES ()", "SELECT CAST(x AS ENUM())", "SELECT OBJECT_CONSTRUCT()", "CREATE FUNCTION f() RETURNS INT AS 'select 1'",
    "SELECT x FROM t ORDER BY ()", "ALTER TABLE t ADD COLUMNS ()", "SELECT COALESCE()", "SELECT ROW()", "SELECT tuple()",
]


def empty_corpus(chk: Check) -> list:
    """statements whose parse holds an EMPTY list arg or a None-valued arg (what `dump` does not record and `norm` erases),
    parsed by every dialect, one tree per distinct parse; their SQL is compared in ALL dialects"""
    sqlglot, exp, _ = sg()
    out, seen = [], set()
    for d in all_dialects():
        for sql in EMPTY_SQLS:
            try:
                t = sqlglot.parse_one(sql, read=d)
            except Exception:
                continue
            if t is None or isinstance(t, exp.Command):
                continue
            try:
                fp = json.dumps(conv(t, lenient=True), sort_keys=True, default=str)   # (repr hides None-valued args)
            except Exception:
                fp = repr(t)
            if fp in seen:
                continue
            seen.add(fp)
            has_empty = any(type(v) is list and not v for n in t.walk() for v in n.args.values())
            has_none = any(v is None for n in t.walk() for v in n.args.values())
            if not (has_empty or has_none):
                continue
            chk.count("empty-corpus:" + ("empty-list" if has_empty else "none-only"))
            out.append(({"sql": sql, "dialect": d, "xf": "raw", "cast_corpus": True, "corpus": "empty"}, t))
    chk.cov["empty_corpus_trees"] = len(out)
    return out


def special_trees():
    """hand-picked shapes: the value kinds the property text names"""
    _, exp, _ = sg()
    out = []
    t = exp.Select(expressions=[exp.Column(this=exp.to_identifier("a"))])
    t.args["distinct"] = False                      # False vs absent
    t.args["limit"] = None
    t.args["joins"] = []
    out.append(t)
    c = exp.Cast(this=exp.Column(this=exp.to_identifier("a")), to=exp.DataType.build("DECIMAL(10, 2)"))
    out.append(c)                                   # Cast.type falls back to `to`
    d = exp.DataType.build("STRUCT<a ARRAY<INT>, b MAP<TEXT, DECIMAL(3, 1)>>")
    d._type = exp.DataType.build("INT")             # a DataType's own _type is never dumped (type is self)
    out.append(d)
    a = exp.Anonymous(this="f", expressions=[exp.Literal.number(1), exp.Literal.string("s")])
    a.type = "ARRAY<INT>"
    a.add_comments(["x", "sqlglot.meta a=b, c"])
    out.append(a)
    n = exp.Tuple(expressions=[[1, 2], ["x"], []])  # nested lists of scalars
    out.append(n)
    i = exp.Identifier(this="q", quoted=True)
    i.meta["line"] = 3
    i.comments = []
    out.append(i)
    k = exp.Column(this=exp.Star())
    k._type = exp.DataType(this=exp.DType.UNKNOWN)
    k._type._meta = {}
    out.append(k)
    out.append(exp.Tuple(expressions=[exp.DataType(this=d, nested=False) for d in exp.DType]))   # every DType member
    return [({"special": idx}, t) for idx, t in enumerate(out)]


# ------------------------------------------------------------------------------------------ correspondence
def payload_mutations(rng, payloads, root_is_cast=False):
    """payload lists `dump` never produces, to compare load's set/append/_load glue with the model"""
    out = []
    n = len(payloads)
    if n < 2:
        return out

    def cp():
        return _copy.deepcopy(payloads)

    def plain(p):
        v = p.get("v")
        return not isinstance(v, list)

    for _ in range(3):
        m = cp()
        j = rng.randrange(1, n)
        r = rng.randrange(10)
        if r == 0 and plain(m[j]):                    # flip the array flag
            if m[j].get("a"):
                del m[j]["a"]
            else:
                m[j]["a"] = True
        elif r == 1 and plain(m[j]):                  # same key twice: set overwrites / append extends
            m.insert(j + 1, _copy.deepcopy(m[j]))
            for q in m[j + 2:]:
                if q.get("i", 0) > j:
                    q["i"] += 1
            if "c" in m[j + 1] and m[j + 1]["c"] != "DataType.Type":
                pass
        elif r == 2:                                  # a scalar as parent -> AttributeError
            scal = [i for i in range(n) if "c" not in payloads[i]]
            if scal and max(scal) < n - 1:
                s = rng.choice([i for i in scal if i < n - 1])
                m[s + 1]["i"] = s
        elif r == 3:                                  # missing arg key -> KeyError
            m[j].pop("k", None)
        elif r == 4:                                  # parent index out of range
            m[j]["i"] = n + 3
        elif r == 5:                                  # rename a key so that two different args collide
            ks = sorted({p["k"] for p in payloads[1:] if p.get("i") == m[j].get("i") and "k" in p})
            if len(ks) >= 2 and all(plain(p) for p in m):
                m[j]["k"] = rng.choice(ks)
        elif r == 6 and "c" not in m[j] and not m[j].get("a"):   # set(k, None) pops the key
            m[j]["v"] = None
        elif r == 7:                                  # drop a payload, later parents shift
            if plain(m[j]) and all(plain(p) for p in m):
                del m[j]
                for q in m[j:]:
                    if q.get("i", 0) >= j:
                        q["i"] = max(0, q["i"] - 1)
        elif r == 8:                                  # first payload without class
            m[0].pop("c", None)
        elif r == 9 and not root_is_cast:             # `load([])` is None (a Cast would fall back to `to` in `.type`)
            m[0]["t"] = []
        out.append(m)
    out.append([])
    return out


def real_load_outcome(serde, payloads):
    try:
        r = serde.load(_copy.deepcopy(payloads))
    except RecursionError:
        return None
    except Exception:
        return "err"
    if r is None:
        return "none"
    try:
        return conv(r)
    except Unrep:
        return None


def arena_view(root):
    """the rebuilt object graph in `nodes` order (= pre-order incl. scalars): per cell "s" or
    ["n", parent index, arg_key, index, _hash is None]"""
    _, exp, _ = sg()
    cells, ids = [], {}
    stack = [root]
    while stack:
        x = stack.pop()
        if isinstance(x, exp.Expr):
            ids[id(x)] = len(cells)
            cells.append(x)
            kids = []
            for v in x.args.values():
                kids.extend(v if type(v) is list else [v])
            stack.extend(reversed(kids))
        else:
            cells.append(None)
    out = []
    for x in cells:
        if x is None:
            out.append("s")
        else:
            p = x.parent
            out.append(["n", None if p is None else ids.get(id(p), -1), x.arg_key, x.index, x._hash is None])
    return out


def json_tokens(text: str) -> list:
    """the token sequence of a JSON text written by json.dumps (strings decoded by CPython's own scanner)"""
    from json.decoder import py_scanstring

    out, i, n = [], 0, len(text)
    while i < n:
        ch = text[i]
        if ch in " \t\n\r":
            i += 1
        elif ch in "{}[],:":
            out.append(ch)
            i += 1
        elif ch == '"':
            s_, i = py_scanstring(text, i + 1)
            out.append(["s", s_])
        elif text.startswith("true", i):
            out.append("true"); i += 4
        elif text.startswith("false", i):
            out.append("false"); i += 5
        elif text.startswith("null", i):
            out.append("null"); i += 4
        else:
            j = i + 1
            while j < n and text[j].isdigit():
                j += 1
            if j < n and text[j] in ".eE":
                raise Unrep("float", "json text")
            out.append(["n", int(text[i:j])])
            i = j
    return out


def sort_meta(payloads):
    """the driver reads a meta dict in key order: present it that way (only meta dicts are reordered)"""
    out = []
    for p in payloads:
        q = dict(p)
        if isinstance(q.get("m"), dict):
            q["m"] = {k: ({"__expr__": sort_meta(v["__expr__"])} if isinstance(v, dict) and "__expr__" in v else v)
                      for k, v in sorted(q["m"].items())}
        if isinstance(q.get("t"), list):
            q["t"] = sort_meta(q["t"])
        out.append(q)
    return out


def eq_variants(rng, tj):
    """trees related to `tj` in the ways `==` is blind / sensitive to (ASCII-only case changes)"""
    out = []
    if "c" not in tj:
        return out
    a = _copy.deepcopy(tj)
    a["o"], a["m"], a["t"] = (["other"] if not a["o"] else None), None, None
    out.append(a)                                        # decorations
    out.append(norm(_copy.deepcopy(tj)))                 # None / [] args dropped
    b = _copy.deepcopy(tj)
    changed = False
    for node in subtrees(b):
        for arg in node["a"]:
            k, kind, v = arg
            if kind == 0 and isinstance(v, dict) and "r" in v:
                r = v["r"]
                if r is False:
                    node["a"].remove(arg); changed = True; break
                if r is True:
                    arg[2] = {"r": 1}; changed = True; break
                if type(r) is str and r.isascii() and r.lower() != r.upper():
                    arg[2] = {"r": r.swapcase()}; changed = True; break
        if changed:
            break
    if changed:
        out.append(b)
    c = _copy.deepcopy(tj)
    if c["a"]:
        c["a"] = list(reversed(c["a"]))                  # args in another insertion order
        out.append(c)
    return out


def graph_cells(root):
    """the objects of a tree in `nodes` order (= payload order of its dump): Expressions and scalars"""
    _, exp, _ = sg()
    cells = []
    stack = [root]
    while stack:
        x = stack.pop()
        cells.append(x)
        if isinstance(x, exp.Expr):
            kids = []
            for v in x.args.values():
                kids.extend(v if type(v) is list else [v])
            stack.extend(reversed(kids))
    return cells


def sharing_observed(serde, t) -> set:
    """which containers of a kept dump the loaded nodes point at (object identity): compared with the SharePolicy the
    translator read off the source"""
    _, exp, _ = sg()
    d = serde.dump(t)
    l = serde.load(d)
    obs = set()
    cells = graph_cells(l)
    if len(cells) != len(d):
        return obs
    for x, p in zip(cells, d):
        if isinstance(x, exp.Expr):
            if "o" in p and x.comments is not None:
                obs.add(("loadCopiesComments", x.comments is not p["o"]))
            if "m" in p and x._meta is not None:
                obs.add(("loadBuildsMetaDict", x._meta is not p["m"]))
    src = graph_cells(t)
    if len(src) == len(d):
        for x, p in zip(src, d):
            if isinstance(x, exp.Expr) and "o" in p:
                obs.add(("dumpCopiesComments", p["o"] is not x.comments))
    return obs


def correspond(chk: Check, trees: list) -> list:
    """trees: list of (origin, tree). Returns the origins/trees on which model and code differ."""
    global _RAW_TYPE
    _RAW_TYPE = True
    try:
        return _correspond(chk, trees)
    finally:
        _RAW_TYPE = False


def _correspond(chk: Check, trees: list) -> list:
    _, exp, serde = sg()
    rng = chk.rng
    lines, meta = [], []
    for idx, (origin, t) in enumerate(trees):
        try:
            tj = conv(t)
        except Unrep as e:
            chk.count("unrepresentable:" + e.kind)
            continue
        except RecursionError:
            chk.count("unrepresentable:too-deep")
            continue
        try:
            payloads = serde.dump(t)
            text = json.dumps(payloads)
            loaded = real_load_outcome(serde, json.loads(text))
        except Exception:
            chk.count("corr:real-side-raised")       # the search oracle reports it
            continue
        if loaded is None:
            continue
        lines.append(json.dumps({"op": "dump", "tree": tj, "payload": payloads}))
        meta.append((idx, "dump", None))
        lines.append(json.dumps({"op": "load", "payload": payloads, "expect": loaded}))
        meta.append((idx, "load", None))
        chk.corr_cases += 1
        if idx % 6 == 5:
            # the model of `==` (class + __hash__ fold) vs the real one, on variants `==` is blind / sensitive to
            global _RAW_TYPE
            try:
                _RAW_TYPE = False
                base = conv(t)
                ta = build(base)
                hash(ta)
                cands = eq_variants(rng, base)
                other = trees[rng.randrange(len(trees))][1]
                try:
                    cands.append(conv(other))
                except Exception:
                    pass
                for vj in cands:
                    tb = build(vj)
                    try:
                        real = bool(ta == tb)
                    except Exception:
                        continue
                    lines.append(json.dumps({"op": "eq", "a": base, "b": vj, "expect": real}))
                    meta.append((idx, "eq", None))
                    chk.corr_cases += 1
                    chk.count("eq-corr:" + ("equal" if real else "unequal"))
            except Exception:
                chk.count("corr:eq-skipped")
            finally:
                _RAW_TYPE = True
        if idx % 5 == 2:
            try:
                canon = sort_meta(payloads)
                lines.append(json.dumps({"op": "jsontok", "payload": canon, "tokens": json_tokens(json.dumps(canon))}))
                meta.append((idx, "json-text", None))
                chk.corr_cases += 1
            except Unrep:
                pass
        if idx % 3 == 0 and isinstance(loaded, dict):
            try:
                hash(t)                                  # a cached hash on the source must not travel
            except Exception:
                pass
            try:
                view = arena_view(serde.load(serde.dump(t)))
                lines.append(json.dumps({"op": "arena", "payload": payloads, "expect": view}))
                meta.append((idx, "load-arena", None))
                chk.corr_cases += 1
            except Exception:
                chk.count("corr:arena-view-failed")
        if idx % 3 == 1:
            # __deepcopy__ model: the copy as a tree (exact: None / [] args kept) and its object graph (links, hashes)
            hashed = idx % 2 == 0
            try:
                src = t.copy()
                for n_ in src.walk():                      # optimizer passes leave some hashes cached: start clean
                    n_._hash = None
                if hashed:
                    hash(src)                              # … or with every node's hash cached
                cp = src.copy()
                lines.append(json.dumps({"op": "copy", "tree": tj, "hashed": hashed, "expect": conv(cp),
                                         "view": arena_view(cp)}))
                meta.append((idx, "copy", None))
                chk.corr_cases += 1
                chk.count("copy-corr:" + ("hashed" if hashed else "unhashed"))
            except Unrep:
                pass
            except Exception:
                chk.count("corr:copy-real-side-raised")
        if idx % 4 == 0:
            for m in payload_mutations(rng, payloads, bool(getattr(t, 'is_cast', False))):
                out = real_load_outcome(serde, m)
                if out is None:
                    continue
                lines.append(json.dumps({"op": "load", "payload": m, "expect": out}))
                meta.append((idx, "load-mutated", m))
                chk.count("mutated-load:" + (out if isinstance(out, str) else "tree"))
                chk.corr_cases += 1
    # SharePolicy (extracted from the source text) vs what the running code does (object identity)
    pol = chk.cov.get("share_policy", {})
    seen_obs: dict = {}
    for idx, (origin, t) in enumerate(trees):
        if idx % 7:
            continue
        try:
            for kind, fresh in sharing_observed(serde, t):
                seen_obs.setdefault((kind, fresh), origin)
        except Exception:
            continue
    chk.cov["sharing_observed"] = sorted(f"{k}={v}" for k, v in seen_obs)
    for (kind, fresh), origin in seen_obs.items():
        if bool(pol.get(kind)) != fresh:
            chk.correspondence_broken("container sharing of load/dump vs the extracted SharePolicy",
                                      {"origin": origin, "field": kind, "source_says_fresh": pol.get(kind), "observed_fresh": fresh})
    got = chk.driver("C12", lines)
    bad = []
    seen = set()
    for g, line, (idx, what, m) in zip(got, lines, meta):
        if g != "ok":
            if idx in seen:
                continue
            seen.add(idx)
            origin, t = trees[idx]
            ex = {"origin": origin, "stage": what, "model": g[:400]}
            if m is not None:
                ex["payload"] = m
            else:
                try:
                    ex["tree"] = skeleton(conv(t))
                except Exception:
                    pass
            chk.correspondence_broken(("Expression.__deepcopy__" if what == "copy" else "json.dumps token sequence" if what == "json-text" else "Expression.__eq__ / __hash__" if what == "eq" else f"serde.{what.split('-')[0]}") + " vs model", ex)
            bad.append(trees[idx])
    return bad


# ------------------------------------------------------------------------------------------ search (property oracle)
SQL_DIALECTS = [None, "duckdb", "bigquery", "snowflake", "mysql", "postgres", "tsql", "spark", "oracle", "clickhouse", "singlestore"]


def sql_all(t, dialects):
    out = []
    for d in dialects:
        try:
            out.append(t.sql(dialect=d))
        except RecursionError:
            raise
        except Exception as e:
            out.append("raised " + type(e).__name__)
    return out


def links_ok(t):
    """every child of every node points back: parent / arg_key / index (what load's set/append must restore)"""
    _, exp, _ = sg()
    stack = [t]
    while stack:
        n = stack.pop()
        for k, v in n.args.items():
            if isinstance(v, exp.Expr):
                if v.parent is not n or v.arg_key != k or v.index is not None:
                    return f"{type(n).__name__}.{k}: parent/arg_key/index = {type(v.parent).__name__}/{v.arg_key}/{v.index}"
                stack.append(v)
            elif type(v) is list:
                for i, x in enumerate(v):
                    if isinstance(x, exp.Expr):
                        if x.parent is not n or x.arg_key != k or x.index != i:
                            return f"{type(n).__name__}.{k}[{i}]: parent/arg_key/index = {type(x.parent).__name__}/{x.arg_key}/{x.index}"
                        stack.append(x)
    return None


def first_diff(a, b, path="root"):
    if type(a) is not type(b):
        return f"{path}: {json.dumps(a)[:80]} vs {json.dumps(b)[:80]}"
    if isinstance(a, dict):
        if "c" in a and "c" in b:
            if a["c"] != b["c"]:
                return f"{path}: class {a['c']} vs {b['c']}"
            name = a["c"].rsplit(".", 1)[-1]
            if (a["t"] is None) != (b["t"] is None):
                return f"{path}<{name}>.type: {'set' if a['t'] else 'None'} vs {'set' if b['t'] else 'None'}"
            if a["t"] is not None:
                d = first_diff(a["t"], b["t"], f"{path}<{name}>.type")
                if d:
                    return d
            if a["o"] != b["o"]:
                return f"{path}<{name}>.comments: {a['o']!r} vs {b['o']!r}"
            if (a["m"] or None) != (b["m"] or None):      # `.meta` reads {} for both None and {}
                return f"{path}<{name}>.meta: {repr(a['m'])[:200]} vs {repr(b['m'])[:200]}"
            ka = [(k, kind) for k, kind, _ in a["a"]]
            kb = [(k, kind) for k, kind, _ in b["a"]]
            if sorted(ka) != sorted(kb):
                return f"{path}<{name}>.args: {ka} vs {kb}"
            db = {k: v for k, _, v in b["a"]}
            for k, kind, v in a["a"]:
                w = db[k]
                if kind == 0:
                    d = first_diff(v, w, f"{path}.{k}")
                    if d:
                        return d
                else:
                    if len(v) != len(w):
                        return f"{path}<{name}>.{k}: {len(v)} vs {len(w)} elements"
                    for i, (x, y) in enumerate(zip(v, w)):
                        d = first_diff(x, y, f"{path}.{k}[{i}]")
                        if d:
                            return d
            return None
        return None if a == b else f"{path}: {json.dumps(a)[:80]} vs {json.dumps(b)[:80]}"
    return None if a == b else f"{path}: {a!r} vs {b!r}"


def same_tree(tj_a, tj_b):
    """None if equal (args compared as dicts: key order is not part of a tree's identity), else a description"""
    return first_diff(tj_a, tj_b)


def oracle(t, dialects=SQL_DIALECTS, want=None, skip=(), sql_norm=False, light=None):
    """The property's statement on the real code. Returns None, or (check, description).
    `want` restricts to one check name (used while minimising), `skip` leaves checks out.
    `sql_norm` (directly constructed trees only): the reference SQL is generated from the tree without its None-valued /
    empty-list args, because a synthetic `alias=None` is told from an absent alias by generators that index args[k];
    parsed trees are always compared with their own SQL."""
    _, exp, serde = sg()

    def on(name):
        return (want is None or want == name) and name not in skip

    lenient = False
    rep = None
    try:
        tj = conv(t)
    except Unrep as e:
        rep = e
        lenient = True
        tj = conv(t, lenient=True)
    except (KeyError, AttributeError):
        return None            # not a tree: a required arg the node's own properties rely on is missing
    oracle.last_rep = rep
    try:
        payloads = serde.dump(t)
    except RecursionError:
        raise
    except Exception as e:
        return ("dump-raises", f"dump raised {type(e).__name__}: {e}") if on("dump-raises") else None
    text = None
    try:
        text = json.dumps(payloads)
    except Exception as e:
        if on("json"):
            return ("json", f"the dump is not JSON-serialisable: {type(e).__name__}: {e}"
                    + (f" (a {rep.kind} stored at {rep.where})" if rep else ""))
    if text is not None and on("json") and json.loads(text) != payloads:
        return ("json", "json.loads(json.dumps(dump(t))) differs from dump(t)" + (f" (a {rep.kind} stored at {rep.where})" if rep else ""))
    want_tj = norm(tj)
    sql_ref = t
    if sql_norm and not lenient:
        try:
            sql_ref = build(want_tj)
        except Exception:
            sql_ref = t
    try:
        hashable = True
        hash(t)
    except Exception:
        hashable = False
    sqls = None
    for route in ("direct", "json", "pickle"):
        name = {"direct": "", "json": "json-", "pickle": "pickle-"}[route]
        if route == "json" and text is None:
            continue
        try:
            if route == "direct":
                l = serde.load(payloads)
            elif route == "json":
                l = serde.load(json.loads(text))
            else:
                l = pickle.loads(pickle.dumps(t))
        except RecursionError:
            raise
        except Exception as e:
            if on(name + "load-raises"):
                return (name + "load-raises", f"{route}: load raised {type(e).__name__}: {e}")
            continue
        if l is None:
            if on(name + "load-raises"):
                return (name + "load-raises", f"{route}: load returned None")
            continue
        if on(name + "eq") and hashable and not (l == t and type(l) is type(t)):
            return (name + "eq", f"{route}: load(dump(t)) != t")
        if on(name + "same"):
            try:
                d = same_tree(want_tj, conv(l, lenient=lenient))
            except Unrep as e:
                d = f"loaded tree holds a {e.kind} at {e.where}"
            if d:
                return (name + "same", f"{route}: loaded tree differs: {d}")
        if on(name + "links"):
            d = links_ok(l)
            if d:
                return (name + "links", f"{route}: parent link not restored: {d}")
        if on(name + "sql") and dialects:
            if sqls is None:
                sqls = sql_all(sql_ref, dialects)
            # `light`: the JSON / pickle routes share load() with the direct one: they get a smaller dialect set
            if light is not None and route != "direct":
                idxs = [i for i, dn in enumerate(dialects) if dn in light]
            else:
                idxs = list(range(len(dialects)))
            ds_r = [dialects[i] for i in idxs]
            s2 = sql_all(l, ds_r)
            for dname, x, y in zip(ds_r, [sqls[i] for i in idxs], s2):
                if x != y and not x.startswith("raised "):
                    return (name + "sql", f"{route}: .sql(dialect={dname}) differs: {x[:120]!r} vs {y[:120]!r}")
        if route == "pickle" and hashable and on("pickle-edit"):
            # the unpickled tree is a tree like any other: edit a leaf below the root, the property must still hold for it
            # (a cached hash carried across pickle would now be stale: the tree would still == its unedited original)
            try:
                before = serde.load(serde.dump(l))
                if _edit_leaf(l):
                    l2 = serde.load(serde.dump(l))
                    if not (l2 == l) or (l == before):
                        return ("pickle-edit", "after editing a leaf of the unpickled tree, load(dump(x)) != x "
                                               "or x still equals its unedited self (stale cached hash)")
            except RecursionError:
                raise
            except Exception:
                pass
    if want is None or want.startswith("raw-type"):
        try:
            l0 = serde.load(serde.dump(t))
            ca, cb = list(t.walk()), list(l0.walk())
            if len(ca) == len(cb):
                for x, y in zip(ca, cb):
                    if isinstance(x, exp.Expr) and isinstance(y, exp.Expr) and (x._type is None) != (y._type is None) \
                            and not getattr(x, "is_data_type", False):
                        name = "raw-type-" + ("cast" if getattr(x, "is_cast", False) else "other")
                        if on(name):
                            return (name, f"load(dump(t)) has _type {'set' if y._type is not None else 'None'} on a "
                                          f"{type(x).__name__} where t has {'a type' if x._type is not None else 'None'}")
                        break
        except RecursionError:
            raise
        except Exception:
            pass
    if want is None or want.startswith("alias-"):
        r = alias_checks(t, tj, serde, on)
        if r:
            return r
    # copy(): everything, including None-valued args and empty lists, is kept
    try:
        c = t.copy()
    except RecursionError:
        raise
    except Exception as e:
        return ("copy-raises", f"copy() raised {type(e).__name__}: {e}") if on("copy-raises") else None
    if on("copy-eq") and hashable and not (c == t):
        return ("copy-eq", "t.copy() != t")
    if on("copy-same"):
        try:
            d = same_tree(tj, conv(c, lenient=lenient))
        except Unrep as e:
            d = f"copy holds a {e.kind} at {e.where}"
        if d:
            return ("copy-same", f"copy() differs: {d}")
        # key order and _type (not only .type) survive a copy
        if [k for k in c.args] != [k for k in t.args]:
            return ("copy-same", "copy() reorders args")
    if on("copy-links"):
        d = links_ok(c)
        if d:
            return ("copy-links", f"copy(): parent link wrong: {d}")
    if on("copy-sql") and dialects:
        if sqls is None or sql_ref is not t:
            sqls = sql_all(t, dialects)
        s2 = sql_all(c, dialects)
        for dname, x, y in zip(dialects, sqls, s2):
            if x != y and not x.startswith("raised "):
                return ("copy-sql", f"copy(): .sql(dialect={dname}) differs: {x[:120]!r} vs {y[:120]!r}")
    return None


def _edit_decorations(root) -> int:
    """what later passes do to a tree they were handed: append to existing comments, write into existing meta dicts
    (annotate_types writes `nonnull` / `query_type`), in place"""
    n_edit = 0
    for n in root.walk():
        if n.comments:
            n.add_comments(["__verif__"])
            n_edit += 1
        if n._meta is not None:
            n.meta["__verif__"] = True
            n_edit += 1
    return n_edit


def _payload_diff_field(d, snap_list) -> str:
    """the payload key whose value changed; nested dumps (TYPE lists, __expr__ meta entries) are searched inside"""
    for p, q in zip(d, snap_list):
        for k in sorted(set(p) | set(q)):
            x, y = p.get(k), q.get(k)
            if x == y:
                continue
            if k == "t" and isinstance(x, list) and isinstance(y, list) and len(x) == len(y):
                return _payload_diff_field(x, y)
            if k == "m" and isinstance(x, dict) and isinstance(y, dict) and set(x) == set(y):
                for mk in x:
                    if x[mk] != y[mk] and isinstance(x[mk], dict) and isinstance(y[mk], dict):
                        inner = [v for v in x[mk].values() if isinstance(v, list)]
                        inner_q = [v for v in y[mk].values() if isinstance(v, list)]
                        if inner and inner_q and len(inner[0]) == len(inner_q[0]):
                            return _payload_diff_field(inner[0], inner_q[0])
            return k
    return "?"


def alias_checks(t, tj, serde, on):
    """a kept dump is a value: editing the tree loaded from it (or the dumped tree) must not change it, nor what a
    second load returns, nor the original tree"""
    try:
        d = serde.dump(t)
        snap = json.dumps(d)
    except Exception:
        return None
    try:
        a = serde.load(d)
        before = conv(serde.load(d), lenient=True)
        if _edit_decorations(a):
            if json.dumps(d) != snap:
                name = "alias-load-" + _payload_diff_field(d, json.loads(snap))
                if on(name):
                    return (name, "editing the tree returned by load(d) (append a comment / set a meta key) changed the kept dump d "
                                  f"(payload field {name.rsplit('-', 1)[1]!r} is shared with the loaded node)")
            elif conv(serde.load(d), lenient=True) != before and on("alias-load-second"):
                return ("alias-load-second", "editing the tree returned by load(d) changed what a second load(d) returns")
            elif tj is not None and conv(t, lenient=True) != tj and on("alias-load-source"):
                return ("alias-load-source", "editing load(dump(t)) changed t itself")
    except RecursionError:
        raise
    except Unrep:
        pass
    finally:
        # put the shared containers back (the trees of this run are reused by other checks)
        try:
            for p, q in zip(d, json.loads(snap)):
                if "o" in p and p["o"] != q.get("o"):
                    del p["o"][len(q["o"]):]
                if "m" in p and isinstance(p["m"], dict):
                    p["m"].pop("__verif__", None)
        except Exception:
            pass
    try:
        t2 = t.copy()
        d2 = serde.dump(t2)
        snap2 = json.dumps(d2)
        if _edit_decorations(t2) and json.dumps(d2) != snap2:
            name = "alias-dump-" + _payload_diff_field(d2, json.loads(snap2))
            if on(name):
                return (name, "editing a tree after dump() changed the dump already taken "
                              f"(payload field {name.rsplit('-', 1)[1]!r} is the node's own object)")
    except RecursionError:
        raise
    except Exception:
        pass
    return None


def _edit_leaf(root) -> bool:
    """append to the first str arg of a proper descendant (through `set`, as any transformation would)"""
    for n in root.walk():
        if n is root:
            continue
        for k, v in n.args.items():
            if type(v) is str:
                n.set(k, v + "_x")
                return True
    return False


def subtrees(tj):
    """JSON sub-trees that are nodes (incl. type annotations), smallest last"""
    out = []

    def rec(x):
        if "c" not in x:
            return
        out.append(x)
        if x["t"] is not None:
            rec(x["t"])
        for mv in (x["m"] or {}).values():
            if isinstance(mv, dict) and "$e" in mv:
                rec(mv["$e"])
        for k, kind, v in x["a"]:
            if kind == 0:
                rec(v)
            else:
                for y in v:
                    rec(y)

    rec(tj)
    return out


def size_of(tj):
    return len(json.dumps(tj))


def minimise(t, check, dialects, sql_norm=False):
    """delta-debug on the harness's JSON reading of the tree (raw `_type` fields, so that a rebuilt candidate has
    exactly the annotations of the original); falls back to the tree itself"""
    global _RAW_TYPE
    try:
        _RAW_TYPE = True
        try:
            tj = conv(t)
        finally:
            _RAW_TYPE = False
        if not _fails(build(tj), check, dialects, sql_norm):
            return None, t
    except Exception:
        return None, t
    t0 = time.time()
    changed = True
    while changed and time.time() - t0 < 20:
        changed = False
        # a failing proper sub-tree
        for s in sorted(subtrees(tj)[1:], key=size_of):
            if _fails(build(s), check, dialects, sql_norm):
                tj = s
                changed = True
                break
        if changed:
            continue
        # drop the decorations / an arg / a list element of any node
        for node in subtrees(tj):
            for field in ("t", "o", "m"):
                if node[field] is not None:
                    old = node[field]
                    node[field] = None
                    if _fails(build(tj), check, dialects, sql_norm):
                        changed = True
                        break
                    node[field] = old
            if changed:
                break
            for i in range(len(node["a"])):
                old = node["a"]
                node["a"] = old[:i] + old[i + 1:]
                if _fails(build(tj), check, dialects, sql_norm):
                    changed = True
                    break
                node["a"] = old
                k, kind, v = old[i]
                if kind == 1 and len(v) > 1:
                    for j in range(len(v)):
                        node["a"] = old[:i] + [[k, 1, v[:j] + v[j + 1:]]] + old[i + 1:]
                        if _fails(build(tj), check, dialects, sql_norm):
                            changed = True
                            break
                        node["a"] = old
                    if changed:
                        break
            if changed:
                break
    return tj, build(tj)


def _fails(t, check, dialects, sql_norm=False):
    try:
        r = oracle(t, dialects, want=check, sql_norm=sql_norm)
    except RecursionError:
        return False
    except Exception:       # an ill-formed candidate (e.g. a Cast without `to`: its .type property raises)
        return False
    return r is not None and r[0] == check


def consider(chk: Check, origin, t, dialects, light=None) -> bool:
    """run the oracle; every failing check of this tree is minimised, keyed and reported (a known finding on one
    check does not hide the others)"""
    # a check already matched to a known finding is not re-run on every further tree (its class is recorded once;
    # other checks, and other fields of the same check family, stay armed)
    known_checks = chk.cov.setdefault("checks_matched_known", [])
    skip: list = list(known_checks)
    hit = False
    sql_norm = "constructed" in origin
    for _ in range(3):
        try:
            res = oracle(t, dialects, skip=tuple(skip), sql_norm=sql_norm, light=light)
        except RecursionError:
            chk.count("oracle:recursion-limit")
            return hit
        if not res:
            return hit
        hit = True
        check, what = res
        rep = oracle.last_rep
        chk.count("oracle-fail:" + check)
        if rep is not None and check == "json":
            # a value the format cannot carry: keyed on where it is stored and what it is
            key = f"json:{rep.where}={rep.kind}"
            replay = {"check": check, "origin": origin}
        else:
            tj, tm = minimise(t, check, dialects, sql_norm)
            if tj is not None:
                res2 = oracle(tm, dialects, want=check, sql_norm=sql_norm)
                what = res2[1] if res2 else what
                key = f"{check}:{skeleton(tj)}"
                replay = {"check": check, "tree": tj, "origin": origin, "sql_norm": sql_norm}
            else:
                key = f"{check}:{type(t).__name__}"
                replay = {"check": check, "origin": origin}
        n_known = len(chk.known_hits)
        chk.report_violation(key, what, replay, {"check": check})
        # (only checks whose NAME identifies the class — alias-<side>-<field>, raw-type-<kind>; a known `sql` or `json`
        # finding must never switch those checks off for other trees)
        if len(chk.known_hits) > n_known and check not in known_checks and check.startswith(("alias-", "raw-type-")):
            known_checks.append(check)
        skip.append(check)
    return hit


def search(chk: Check, hints: list, pending: list, budget_s: float) -> None:
    _, exp, _ = sg()
    t0 = time.time()
    rng = chk.rng
    tried = found = 0
    quick_d = [None, "duckdb", "tsql"]
    for origin, t in hints[:60]:
        if len(chk.violations) >= 4:
            break
        tried += 1
        found += consider(chk, origin, t, SQL_DIALECTS)
    every = all_dialects()
    # the cast corpus first: SQL compared in ALL dialects (JSON / pickle routes: base, read dialect, clickhouse)
    for origin, t in [p for p in pending if p[0].get("cast_corpus")]:
        if len(chk.violations) >= 4:
            break
        tried += 1
        found += consider(chk, origin, t, every, light={None, origin.get("dialect"), "clickhouse"})
        chk.case(("search-cast", json.dumps(origin, sort_keys=True, default=str)), nontrivial=True)
    chk.cov["cast_corpus_s"] = round(time.time() - t0, 1)
    for origin, t in pending:
        if time.time() - t0 > budget_s or len(chk.violations) >= 4:
            break
        if origin.get("cast_corpus"):
            continue
        tried += 1
        # every tree gets the structural checks; .sql() in the base dialect, the dialect it was parsed in, and a
        # rotating subset of all dialects (every 5th tree: the fixed broad set)
        if tried % 5:
            ds = list(dict.fromkeys(quick_d + [origin.get("dialect")] + [every[(tried * 3 + i) % len(every)] for i in range(3)]))
        else:
            ds = SQL_DIALECTS
        if consider(chk, origin, t, ds):
            found += 1
        chk.case(("search", json.dumps(origin, sort_keys=True, default=str)), nontrivial=True,
                 sample=origin if tried % 499 == 1 else None)
    classes = expression_classes()
    while time.time() - t0 < budget_s and len(chk.violations) < 4:
        cls = rng.choice(classes)
        t = construct(rng, exp, cls, classes, depth=rng.choice([1, 2, 3]))
        tried += 1
        found += consider(chk, {"constructed": cls.__name__, "round": "search"}, t, quick_d)
        chk.case(("search-constructed", tried), nontrivial=True)
    chk.search_info = {"ran": True, "budget_s": budget_s, "trees": tried, "violating": found,
                       "oracle": "load(dump(t)) == t, identical harness reading (class/type/comments/meta/args) of every node, "
                                 "restored parent links, same .sql() in up to 10 dialects; the same via JSON text and via pickle; "
                                 "copy() identical incl. None/[] args; dump JSON-serialisable and stable under json round trip"}


def scan_value_kinds(chk: Check, trees: list) -> None:
    """class / arg-kind coverage of the explored trees; values outside str/int/bool/None/Expr/DType/list are listed"""
    _, exp, _ = sg()
    classes_seen = set()
    odd = {}
    for origin, t in trees:
        parse_origin = "sql" in origin
        try:
            nodes = list(t.walk())
        except Exception:
            continue
        for n in nodes:
            if not isinstance(n, exp.Expr):
                continue
            if parse_origin:
                classes_seen.add(type(n).__name__)
            for k, v in n.args.items():
                for x in (v if type(v) is list else [v]):
                    if isinstance(x, exp.Expr):
                        kind = "Expr"
                    elif type(x) is list:
                        kind = "nested-list"
                    else:
                        kind = type(x).__name__
                    if parse_origin:
                        chk.count("parsed-arg-kind:" + kind)
                        if kind not in ("Expr", "NoneType", "str", "int", "bool", "DType"):
                            odd.setdefault(f"{type(n).__name__}.{k}:{kind}", origin)
    chk.cov["classes_seen_in_parsed_trees"] = len(classes_seen)
    chk.cov["parsed_values_outside_model"] = odd


def run(chk: Check) -> None:
    quiet_logging()
    chk.trusted.append("C12: hand-written model Model/Serde.lean of serde.dump/load/_load, Expression.set/append/_set_parent with "
                       "hash invalidation, __deepcopy__, __reduce__ (arena of cells); the harness's own tree reader `conv` and "
                       "object-graph reader `arena_view` (vf/props/c12.py) that feed trees / graphs to the model")
    chk.assumptions += [
        "arg / meta values are None, bool, int, str, DType, Expression or (nested) lists of those; any other kind met in a parsed tree is listed in coverage.parsed_values_outside_model and judged by the search oracle (JSON round trip)",
        "class names are opaque strings in the model: importing the class by name (`_load`) is exercised by correspondence and search, not proved",
        "`node.type` is what dump reads (for Cast it falls back to `to`, for DataType it is the node itself and is skipped); the model takes that view",
        "a payload list whose INDEX points at itself or forwards (cyclic result) is outside the model",
        "the JSON text round trip is proved at token level (json_text_roundtrip: grammar of lists / dicts / scalars; str-keyed dicts); ASSUMED, not modelled: CPython's lexing of string and integer tokens (escapes, ensure_ascii, digits) and pickle's transport of such values (exercised by the search oracle on every tree)",
        "pickling an Expression is load(dump(t)) with no state by __reduce__ (shape checked by the translator, consequence unpickled_no_hash proved)",
        "__deepcopy__ is modelled on a source tree plus a function hashOf saying which source nodes have a cached _hash (equal subtrees share their cache state); deepcopy of comments / raw meta values is value equality; a nested list value is shared by the real copy (not a node)",
        "None-valued args, empty-list args and comments == [] are identified with their absence (norm): no payload records them and ==, .sql(), .type, .comments-or-[] cannot see them",
    ]
    chk.write_generated(translate(chk))
    proved = chk.prove(MODULES, "Properties.C12", THEOREMS)

    _, exp, _ = sg()
    trees = special_trees()
    trees += list(constructed_trees(chk, chk.pick(2, 6)))
    n_constructed = len(trees)
    trees += cast_corpus(chk)
    trees += empty_corpus(chk)
    for origin, t in parsed_trees(chk, chk.pick(160, 900), chk.pick(2, 5)):
        trees.append((origin, t))
        chk.count("tree:" + origin["xf"])
    chk.count("tree:constructed", n_constructed)
    scan_value_kinds(chk, trees)
    for origin, t in trees[:: max(1, len(trees) // 300)]:
        chk.case(("corr", json.dumps(origin, sort_keys=True, default=str)), nontrivial=True)

    hints = []
    try:
        hints = correspond(chk, trees)
    except HarnessError as e:
        if proved:
            raise
        chk.note(f"model driver unavailable ({e}); continuing with the search on the real code")
    budget = chk.pick(18, 300)
    if chk.broken:
        budget *= 2
    order = list(trees)
    chk.rng.shuffle(order)
    search(chk, hints, order, budget)


def replay(path: str) -> int:
    import sys

    sys.path.insert(0, REPO)
    quiet_logging()
    rec = json.load(open(path))
    r = rec.get("replay")
    if not r:
        print(json.dumps(rec, indent=1)[:4000])
        return 1
    if "tree" in r:
        t = build(r["tree"])
    else:
        sqlglot, exp, _ = sg()
        o = r["origin"]
        t = sqlglot.parse_one(o["sql"], read=o["dialect"])
    res = oracle(t, SQL_DIALECTS, want=r.get("check"), sql_norm=bool(r.get("sql_norm")))
    print("replay:", ("VIOLATES: " + res[1]) if res else "holds")
    return 1 if res else 0
