"""C17 — Column lineage reports exactly the source columns feeding a result column (DESIGN.md §4 C17).

translate : the elements of `cache_key = (...)` in sqlglot/lineage.py:to_node (in order) and whether every recursive
            `to_node(` call threads `_cache=_cache`  ->  Generated/C17.lean (the model's cache key uses them)
prove     : Properties/C17.lean (leaves = structural flow; the cache is transparent for the generated key and keeps its
            invariant across calls; CTE-vs-derived, sources=, alias renaming do not change leaves; stale-key witnesses)
correspond: random query IR with recorded ground-truth flow, three presentations (inline / CTE / sources=) ->
            real qualify + build_scope -> flattened scopes -> Lean `toNode` ; compared with the real `lineage()` leaves,
            the real `_cache` contents (keys, node names, leaves per entry) and the ground truth
search    : the property's own oracle on the real code: leaves == ground truth, presentations agree, alias renaming
            agrees, lineage(None) == per-column; minimised and keyed by feature skeleton
"""

from __future__ import annotations

import ast
import json
import os
import time

from vf.core import Check, REPO, HarnessError

MODULES = ["Model.Ident", "Model.Lineage", "Proofs.Lineage", "Generated.C17", "Properties.C17"]
THEOREMS = [
    "SqlglotModel.Properties.C17.generated_key_ok",
    "SqlglotModel.Properties.C17.leaves_eq_flow",
    "SqlglotModel.Properties.C17.cache_transparent",
    "SqlglotModel.Properties.C17.cache_transparent_generated",
    "SqlglotModel.Properties.C17.lineage_all_eq_per_column",
    "SqlglotModel.Properties.C17.lineageOne_eq_flow",
    "SqlglotModel.Properties.C17.cte_vs_derived",
    "SqlglotModel.Properties.C17.sources_arg_eq_inline",
    "SqlglotModel.Properties.C17.alias_renaming_invariant_per_scope",
    "SqlglotModel.Properties.C17.alias_renaming_invariant",
    "SqlglotModel.Properties.C17.expand_then_lineage_eq_inline",
    "SqlglotModel.Properties.C17.expand_example",
    "SqlglotModel.Properties.C17.generated_key_normalised_once",
    "SqlglotModel.Properties.C17.expand_key_normalised_once",
    "SqlglotModel.Properties.C17.expand_key_double_normalisation_witness",
    "SqlglotModel.Properties.C17.generated_expand_alias_ok",
    "SqlglotModel.Properties.C17.expand_alias_unique_per_reference",
    "SqlglotModel.Properties.C17.expand_alias_last_part_witness",
    "SqlglotModel.Properties.C17.expand_alias_forgets_quoting_witness",
    "SqlglotModel.Properties.C17.generated_cte_env_isolated",
    "SqlglotModel.Properties.C17.cte_sibling_independence",
    "SqlglotModel.Properties.C17.cte_shared_dict_leak_witness",
    "SqlglotModel.Properties.C17.generated_no_settings_blind_memo",
    "SqlglotModel.Properties.C17.expand_key_memo_sound",
    "SqlglotModel.Properties.C17.expand_key_memo_without_settings_witness",
    "SqlglotModel.Properties.C17.twoCol_ok",
    "SqlglotModel.Properties.C17.stale_key_without_column_witness",
    "SqlglotModel.Properties.C17.twoSubq_ok",
    "SqlglotModel.Properties.C17.stale_key_without_scope_witness",
    "SqlglotModel.Properties.C17.cteTwice_ok",
]

KEY_NAMES = {
    "column": "column",
    "id(scope)": "scope",
    "scope_name": "scopeName",
    "source_name": "sourceName",
    "reference_node_name": "refName",
}


KEY_PASSES = [1]
MEMOISED = []
CTE_PINS = [True, True]
OUTER_LOOKUP = [False]  # set by translate(): to_node looks a column up in enclosing scopes (correlated subqueries)
ALIAS_VARIANT = ["fullName"]
WRAP_FORM = ["subquery_scopes"]  # set by translate(): how the Subquery-wrapper branch picks its inner scope


# ------------------------------------------------------------------------------------------ translate
def translate(chk: Check) -> str:
    src = open(os.path.join(REPO, "sqlglot", "lineage.py"), encoding="utf-8").read()
    tree = ast.parse(src)
    comps: list[str] | None = None
    detail = "to_node not found"
    ncalls = 0
    all_pass = True
    for fn in [n for n in tree.body if isinstance(n, ast.FunctionDef) and n.name == "to_node"]:
        detail = "cache_key assignment not found"
        assigns = []
        for node in ast.walk(fn):
            if isinstance(node, ast.Assign) and any(isinstance(tg, ast.Name) and tg.id == "cache_key" for tg in node.targets):
                assigns.append(node)
            if isinstance(node, ast.Call) and isinstance(node.func, ast.Name) and node.func.id == "to_node":
                ncalls += 1
                ok = any(k.arg == "_cache" and isinstance(k.value, ast.Name) and k.value.id == "_cache" for k in node.keywords)
                all_pass = all_pass and ok
        if len(assigns) == 1 and isinstance(assigns[0].value, ast.Tuple):
            comps = []
            for el in assigns[0].value.elts:
                txt = ast.unparse(el)
                if txt in KEY_NAMES:
                    comps.append(KEY_NAMES[txt])
                else:
                    detail = f"unknown cache_key element {txt!r}"
                    comps = None
                    break
        elif assigns:
            detail = f"{len(assigns)} cache_key assignments / not a tuple"
        # the lookup must use that key
        uses = [n for n in ast.walk(fn) if isinstance(n, ast.Subscript) and isinstance(n.value, ast.Name) and n.value.id == "_cache"]
        if comps is not None and not all(isinstance(u.slice, ast.Name) and u.slice.id == "cache_key" for u in uses):
            detail = "_cache indexed by something other than cache_key"
            comps = None
        # which scopes the Subquery-wrapper branch recurses into (lineage.py:247)
        WRAP_FORM[0] = None
        for node in ast.walk(fn):
            if isinstance(node, ast.If) and ast.unparse(node.test) == "isinstance(scope.expression, exp.Subquery)":
                loops = [x for x in node.body if isinstance(x, ast.For)]
                if len(loops) == 1:
                    it = ast.unparse(loops[0].iter)
                    first = ast.unparse(loops[0].body[0]) if loops[0].body else ""
                    filt = first.replace("\n", " ").split() == "if inner_scope.expression is not inner_query: continue".split()
                    if it == "scope.subquery_scopes" and not filt:
                        WRAP_FORM[0] = "subquery_scopes"
                    elif it == "(*scope.derived_table_scopes, *scope.subquery_scopes)" and filt:
                        WRAP_FORM[0] = "inner_query"
        if WRAP_FORM[0] is None:
            chk.broken.append({"kind": "translator", "what": "C17 translator: structure changed: Subquery-wrapper branch of to_node not recognised"})
            WRAP_FORM[0] = "subquery_scopes"
    if comps is None:
        chk.broken.append({"kind": "translator", "what": "C17 translator: structure changed: " + detail})
        comps = []
    if ncalls == 0 or not all_pass:
        chk.broken.append({"kind": "translator", "what": f"C17 translator: structure changed: recursive to_node calls={ncalls}, all pass _cache={all_pass}"})
    chk.cov["cache_key_components"] = comps
    chk.cov["recursive_calls"] = ncalls
    chk.cov["subquery_branch_iterates"] = WRAP_FORM[0]
    # how often the `sources=` keys / a table reference go through normalize_table_name on the way into exp.expand
    n_lin = None
    for fn in [n for n in tree.body if isinstance(n, ast.FunctionDef) and n.name == "lineage"]:
        calls = [n for n in ast.walk(fn) if isinstance(n, ast.Call)]
        has_expand = any(ast.unparse(c.func) in ("exp.expand", "expand") for c in calls)
        if has_expand:
            n_lin = sum(1 for c in calls if ast.unparse(c.func).split(".")[-1] == "normalize_table_name")
    n_exp = n_ref = None
    try:
        btree = ast.parse(open(os.path.join(REPO, "sqlglot", "expressions", "builders.py"), encoding="utf-8").read())
        for fn in [n for n in btree.body if isinstance(n, ast.FunctionDef) and n.name == "expand"]:
            comps_ = [n for n in ast.walk(fn) if isinstance(n, ast.Assign) and ast.unparse(n.targets[0]) == "normalized_sources"
                      and isinstance(n.value, ast.DictComp)]
            if len(comps_) == 1 and ast.unparse(comps_[0].value.generators[0].iter) == "sources.items()":
                k = comps_[0].value.key
                if isinstance(k, ast.Name):
                    n_exp = 0
                elif isinstance(k, ast.Call) and ast.unparse(k.func) == "normalize_table_name" and isinstance(k.args[0], ast.Name):
                    n_exp = 1
            names = [n for n in ast.walk(fn) if isinstance(n, ast.Assign) and ast.unparse(n.targets[0]) == "name"]
            gets = [n for n in ast.walk(fn) if isinstance(n, ast.Call) and ast.unparse(n.func) == "normalized_sources.get"]
            if len(names) == 1 and len(gets) == 1 and ast.unparse(gets[0].args[0]) == "name":
                v = names[0].value
                if isinstance(v, ast.Call) and ast.unparse(v.func) == "normalize_table_name" and ast.unparse(v.args[0]) == "node":
                    n_ref = 1
    except (OSError, SyntaxError):
        pass
    if n_lin is None or n_exp is None or n_ref is None:
        chk.broken.append({"kind": "translator", "what": f"C17 translator: structure changed: sources key normalisation (lineage={n_lin}, expand keys={n_exp}, reference={n_ref})"})
        n_lin, n_exp, n_ref = n_lin or 0, 1 if n_exp is None else n_exp, 1 if n_ref is None else n_ref
    # does to_node look a source column up in enclosing scopes?  (today: no; the proposed repair: one recognised loop)
    OUTER_LOOKUP[0] = False
    for fn in [n for n in tree.body if isinstance(n, ast.FunctionDef) and n.name == "to_node"]:
        loops = [n for n in ast.walk(fn) if isinstance(n, ast.While)]
        for lp in loops:
            if ast.unparse(lp.test) == "col_source is None and (outer_scope.is_subquery or outer_scope.is_union) and outer_scope.parent" \
                    and [ast.unparse(x) for x in lp.body] == ["outer_scope = outer_scope.parent", "col_source = outer_scope.sources.get(table)"]:
                OUTER_LOOKUP[0] = True
            elif ".parent" in ast.unparse(lp):
                chk.broken.append({"kind": "translator", "what": "C17 translator: structure changed: unrecognised enclosing-scope lookup in to_node"})
    chk.cov["outer_scope_lookup"] = OUTER_LOOKUP[0]
    # no functools cache / module-level memo on the key normalisation path (a key holding a Dialect object is keyed by
    # its CLASS only: Dialect.__eq__/__hash__ ignore settings)
    memoised = None
    try:
        import glob as _glob

        CACHE_DECOS = ("lru_cache", "cache", "cached_property", "memoize", "memoized")

        def cache_deco(fn):
            return any(ast.unparse(d).split("(")[0].split(".")[-1] in CACHE_DECOS for d in fn.decorator_list)

        found = []
        watch = {"builders.py": ["normalize_table_name", "expand"]}
        files = sorted(_glob.glob(os.path.join(REPO, "sqlglot", "expressions", "*.py"))) + [os.path.join(REPO, "sqlglot", "lineage.py")]
        seen_fns = set()
        for path_ in files:
            mod = ast.parse(open(path_, encoding="utf-8").read())
            base = os.path.basename(path_)
            targets = ["lineage", "to_node"] if base == "lineage.py" else ["normalize_table_name", "expand"]
            fns = {n.name: n for n in mod.body if isinstance(n, ast.FunctionDef)}
            memo_dicts = {ast.unparse(a.targets[0]) for a in mod.body if isinstance(a, ast.Assign) and len(a.targets) == 1
                          and ((isinstance(a.value, ast.Dict) and not a.value.keys) or
                               (isinstance(a.value, ast.Call) and ast.unparse(a.value.func).split(".")[-1] in ("dict", "OrderedDict", "WeakKeyDictionary", "defaultdict")))
                          and not ast.unparse(a.targets[0]).isupper()}
            for tname in targets:
                fn = fns.get(tname)
                if fn is None:
                    continue
                seen_fns.add(tname)
                todo = [fn] + [fns[c.func.id] for c in ast.walk(fn) if isinstance(c, ast.Call) and isinstance(c.func, ast.Name)
                               and c.func.id in fns and c.func.id != tname]
                for g in todo:
                    if cache_deco(g):
                        found.append(f"{base}:{g.name}")
                    for nm in ast.walk(g):
                        if isinstance(nm, ast.Name) and nm.id in memo_dicts:
                            found.append(f"{base}:{g.name}:{nm.id}")
        if {"normalize_table_name", "expand", "lineage", "to_node"} <= seen_fns:
            memoised = sorted(set(found))
    except (OSError, SyntaxError):
        pass
    if memoised is None:
        chk.broken.append({"kind": "translator", "what": "C17 translator: structure changed: normalize_table_name / expand / lineage / to_node not all found"})
        memoised = []
    MEMOISED[:] = memoised
    chk.cov["memoised_normalisers"] = memoised
    # scope building: does every child scope get its OWN copy of the parent's cte_sources mapping?
    copies = inplace = None
    try:
        stree = ast.parse(open(os.path.join(REPO, "sqlglot", "optimizer", "scope.py"), encoding="utf-8").read())
        for cls in [n for n in stree.body if isinstance(n, ast.ClassDef) and n.name == "Scope"]:
            for fn in [n for n in cls.body if isinstance(n, ast.FunctionDef) and n.name == "branch"]:
                assigned = {ast.unparse(a.targets[0]): a.value for a in ast.walk(fn) if isinstance(a, ast.Assign) and len(a.targets) == 1}

                def fresh(node, depth=0):
                    # True: always a new dict; False: can be the parent's dict itself; None: unknown shape
                    if isinstance(node, ast.Dict):
                        return True if all(k is None for k in node.keys) else None
                    if isinstance(node, ast.Call) and (ast.unparse(node.func) == "dict" or ast.unparse(node.func).endswith(".copy")):
                        return True
                    if isinstance(node, ast.IfExp):
                        a, b = fresh(node.body, depth), fresh(node.orelse, depth)
                        return None if a is None or b is None else (a and b)
                    if isinstance(node, ast.Attribute) and ast.unparse(node) == "self.cte_sources":
                        return False
                    if isinstance(node, ast.Name) and node.id in assigned and depth < 3:
                        return fresh(assigned[node.id], depth + 1)
                    return None

                calls = [c for c in ast.walk(fn) if isinstance(c, ast.Call) and ast.unparse(c.func) == "Scope"]
                kws = [k.value for c in calls for k in c.keywords if k.arg == "cte_sources"]
                if len(kws) == 1:
                    copies = fresh(kws[0])
        for fn in [n for n in stree.body if isinstance(n, ast.FunctionDef) and n.name == "_traverse_ctes"]:
            upd = [c for c in ast.walk(fn) if isinstance(c, ast.Call) and ast.unparse(c.func) == "scope.cte_sources.update"]
            asg = [a for a in ast.walk(fn) if isinstance(a, ast.Assign) and any(ast.unparse(t_) == "scope.cte_sources" for t_ in a.targets)]
            if len(upd) == 1 and not asg:
                inplace = True
            elif not upd and len(asg) == 1:
                inplace = False
    except (OSError, SyntaxError):
        pass
    if copies is None or inplace is None:
        chk.broken.append({"kind": "translator", "what": f"C17 translator: structure changed: cte_sources handling in scope.py (branch copies={copies}, _traverse_ctes in place={inplace})"})
        copies, inplace = (True if copies is None else copies), (True if inplace is None else inplace)
    CTE_PINS[:] = [copies, inplace]
    chk.cov["scope_cte_sources"] = {"branch_copies": copies, "traverse_ctes_updates_in_place": inplace}
    # which expression the alias of the replacing derived table is built from
    variant = None
    try:
        for fn in [n for n in btree.body if isinstance(n, ast.FunctionDef) and n.name == "expand"]:
            subs = [n for n in ast.walk(fn) if isinstance(n, ast.Call) and ast.unparse(n.func) == "parsed_source.subquery"]
            if len(subs) == 1 and len(subs[0].args) == 1 and not subs[0].keywords:
                txt = ast.unparse(subs[0].args[0])
                variant = {"node.alias or name": "fullName", "node.alias_or_name": "aliasOrName"}.get(txt, "other")
    except NameError:
        pass
    if variant in (None, "other"):
        chk.broken.append({"kind": "translator", "what": f"C17 translator: structure changed: alias of the expanded source ({variant})"})
        variant = "other"
    ALIAS_VARIANT[0] = variant
    chk.cov["expand_alias_from"] = variant
    chk.cov["source_key_normalisations"] = {"lineage": n_lin, "expand": n_exp, "reference": n_ref}
    KEY_PASSES[0] = n_lin + n_exp
    return (
        "-- GENERATED by vf/props/c17.py from sqlglot/lineage.py (to_node: cache_key tuple, recursive calls). Do not edit.\n"
        "import SqlglotModel.Model.Lineage\n"
        "namespace SqlglotModel.Generated.C17\n"
        "open SqlglotModel.Lineage\n"
        "def keyComps : List KeyComp := [" + ", ".join("." + c for c in comps) + "]\n"
        f"def recursiveCalls : Nat := {ncalls}\n"
        f"def recursiveCallsPassCache : Bool := {'true' if all_pass and ncalls else 'false'}\n"
        f"/-- informational: what the Subquery-wrapper branch iterates to find the inner scope -/\n"
        f"def subqueryBranchIterates : String := \"{WRAP_FORM[0]}\"\n"
        f"/-- normalize_table_name passes over a `sources=` key between lineage() and the lookup in exp.expand -/\n"
        f"def keyNormalisations : Nat := {KEY_PASSES[0]}\n"
        f"/-- normalize_table_name passes over a table reference before the lookup -/\n"
        f"def refNormalisations : Nat := {n_ref}\n"
        f"/-- the expression exp.expand builds the alias of the replacing derived table from -/\n"
        f"def expandAliasVariant : AliasVariant := .{ALIAS_VARIANT[0]}\n"
        f"/-- scope.py: Scope.branch gives every child a NEW cte_sources dict / _traverse_ctes updates it in place -/\n"
        f"def branchCopiesCteSources : Bool := {'true' if CTE_PINS[0] else 'false'}\n"
        f"def traverseCtesUpdatesInPlace : Bool := {'true' if CTE_PINS[1] else 'false'}\n"
        f"/-- functions on the sources-key normalisation path that carry a functools cache / use a module-level memo dict -/\n"
        "def memoisedNormalisers : List String := [" + ", ".join('"' + m + '"' for m in MEMOISED) + "]\n"
        "end SqlglotModel.Generated.C17\n"
    )


# ------------------------------------------------------------------------------------------ query IR
BASE = {"t": ["a", "b", "c"], "u": ["a", "d"], "v": ["b", "e", "f", "g"], "orders": ["h", "i"]}
DIALECTS = [None, "duckdb", "snowflake", "bigquery", "postgres", "mysql", "spark", "hive", "tsql", "mysql", "bigquery", "singlestore"]
ALIASES = ["d", "e", "p", "q", "r", "s", "w"]
OUTNAMES = ["x", "y", "z", "a", "b", "k", "m"]


class T:
    def __init__(self, name):
        self.name = name


class S:
    """a sub-query used as a FROM source; `collist` = column-list alias; `ref_collist` = put it on the reference"""

    def __init__(self, q, collist=None, ref_collist=False, unaliased=False):
        self.q = q
        self.collist = collist
        self.ref_collist = ref_collist
        self.unaliased = unaliased  # sources= presentation: referenced by its (possibly qualified) name, no AS
        self.inline_only = False  # written as an inline derived table in every presentation


class R(S):
    """a reference BY NAME to a CTE that is lexically visible at this point (`q` = its body, resolved by construction:
    ground truth is lexical scoping); rendered `name AS alias` in every presentation"""

    def __init__(self, ref_name, target):
        S.__init__(self, target)
        self.ref_name = ref_name


class P:
    """projection: kind 'expr' (cols + scalar subqueries + literal), 'star', 'qstar' (alias.*)"""

    def __init__(self, kind, name=None, cols=(), subqs=(), alias=None, bare=False, outer=()):
        self.outer = list(outer)  # correlated: (alias, column) of the ENCLOSING select's sources used in this expression
        self.kind = kind
        self.name = name
        self.cols = list(cols)  # (source alias, column name)
        self.subqs = list(subqs)
        self.alias = alias
        self.bare = bare  # a single column rendered without AS


class Sel:
    def __init__(self, projs, frm, where=None, distinct=False, bare=False):
        self.bare = bare  # every column reference is written unqualified (all source column names are distinct)
        self.withs = []  # this select's own WITH: [(name, query)], each visible to the later ones and to the body
        self.projs = projs
        self.frm = frm  # list of (alias, T|S)
        self.where = where  # (alias, col) used only in WHERE: does not flow
        self.distinct = distinct


class Uni:
    def __init__(self, op, left, right):
        self.op = op
        self.left = left
        self.right = right


def src_names(src):
    if isinstance(src, T):
        return list(BASE[src.name])
    return list(src.collist) if src.collist else out_names(src.q)


def out_names(q):
    if isinstance(q, Uni):
        return out_names(q.left)
    out = []
    for p in q.projs:
        if p.kind == "expr":
            out.append(p.name)
        elif p.kind == "star":
            for _, s in q.frm:
                out += src_names(s)
        else:
            out += src_names(dict(q.frm)[p.alias])
    return out


def col_flow(q, alias, col, path):
    src = dict(q.frm)[alias]
    if isinstance(src, T):
        return {(path + src.name, col)}
    return flow(src.q, src_names(src).index(col), path)


def flow(q, i, path="", outer=None):
    """ground truth: the base-table columns that syntactically flow into output column i
    (`outer` = the enclosing select of a correlated scalar subquery)"""
    if isinstance(q, Uni):
        return flow(q.left, i, path, outer) | flow(q.right, i, path, outer)
    k = 0
    for p in q.projs:
        if p.kind == "expr":
            if k == i:
                out = set()
                for a, c in p.cols:
                    out |= col_flow(q, a, c, path)
                for sq in p.subqs:
                    out |= flow(sq, 0, path, q)
                for a, c in p.outer:
                    out |= col_flow(outer, a, c, path)
                return out
            k += 1
        else:
            srcs = q.frm if p.kind == "star" else [(p.alias, dict(q.frm)[p.alias])]
            for a, s in srcs:
                names = src_names(s)
                if i < k + len(names):
                    return col_flow(q, a, names[i - k], path)
                k += len(names)
    raise HarnessError("flow: index out of range")


def star_order_pattern(frm):
    """`*` over a FROM list in which a sub-query source precedes a plain table: qualify expands plain tables first
    (Scope.references lists tables before derived tables), so the positional order differs from FROM order"""
    seen_sub = False
    for _, s in frm:
        if isinstance(s, S):
            seen_sub = True
        elif seen_sub:
            return True
    return False


def features(q, acc=None, depth=0):
    acc = acc if acc is not None else set()
    if isinstance(q, Uni):
        acc.add("union")
        features(q.left, acc, depth)
        features(q.right, acc, depth)
        return acc
    seen = {}
    for a, s in q.frm:
        if isinstance(s, S):
            acc.add("sub")
            if s.collist:
                acc.add("ref-collist" if s.ref_collist else "collist")
            if id(s.q) in seen:
                acc.add("shared-twice")
            seen[id(s.q)] = 1
            if isinstance(s.q, Uni):
                acc.add("sub-union")
            if s.unaliased:
                acc.add("unaliased-src")
            features(s.q, acc, depth + 1)
    if q.withs:
        acc.add("nested-with" if depth > 0 else "with")
        for _, wq in q.withs:
            features(wq, acc, depth + 1)
    if any(isinstance(s_, R) for _, s_ in q.frm):
        acc.add("cte-ref")
    if q.bare:
        acc.add("bare-cols")
    if len(q.frm) > 1:
        acc.add("join")
        if any(p.kind == "star" for p in q.projs) and star_order_pattern(q.frm):
            acc.add("star-order")
    for p in q.projs:
        if p.kind != "expr":
            acc.add("star" if p.kind == "star" else "qstar")
            tgt = q.frm if p.kind == "star" else [(p.alias, dict(q.frm)[p.alias])]
            if any(isinstance(s, S) and isinstance(s.q, Uni) for _, s in tgt):
                acc.add("star-over-union")
        else:
            if p.subqs:
                acc.add("scalar")
                for sq in p.subqs:
                    features(sq, acc, depth + 1)
            if p.outer:
                acc.add("correlated")
            if len(p.cols) > 1:
                acc.add("multi-col")
            if not p.cols and not p.subqs:
                acc.add("literal")
    if depth >= 3:
        acc.add("deep")
    return acc


# ------------------------------------------------------------------------------------------ generator
def gen_source(rng, depth, shared):
    if depth > 0 and rng.random() < 0.65:
        if shared and rng.random() < 0.35:
            q = rng.choice(shared)
        else:
            q = gen_query(rng, depth - 1)
            shared.append(q)
        collist = None
        ref = False
        if rng.random() < 0.14:
            n = len(out_names(q))
            pool = rng.sample(OUTNAMES + ["n", "o", "h", "i"], n) if n <= 11 else None
            collist = pool
            ref = rng.random() < 0.12
        return S(q, collist, ref)
    return T(rng.choice(list(BASE)))


def gen_select(rng, depth, ncols=None, shared=None):
    shared = shared if shared is not None else []
    nsrc = 1 if rng.random() < 0.6 else 2
    frm = []
    pool = list(ALIASES)
    rng.shuffle(pool)
    for _ in range(nsrc):
        s = gen_source(rng, depth, shared)
        if isinstance(s, T) and rng.random() < 0.5 and s.name not in [a for a, _ in frm]:
            alias = s.name
        else:
            alias = pool.pop()
        frm.append((alias, s))
    if star_order_pattern(frm) and rng.random() < 0.9:
        frm.sort(key=lambda x: isinstance(x[1], S))
    all_names = [(a, n) for a, s in frm for n in src_names(s)]
    flat = [n for _, n in all_names]
    sel_bare = len(set(flat)) == len(flat) and not (set(flat) & {a for a, _ in frm}) and rng.random() < 0.3
    if sel_bare:
        # unqualified column references only: sources may then be referenced WITHOUT an alias
        for _, s_ in frm:
            if isinstance(s_, S) and not s_.collist and rng.random() < 0.75:
                s_.unaliased = True
    projs = []
    if ncols is None and rng.random() < 0.3 and len(set(flat)) == len(flat):
        if rng.random() < 0.6 or nsrc == 1:
            projs.append(P("star"))
        else:
            for a, _ in frm:
                projs.append(P("qstar", alias=a))
        used = set(flat)
        extra = rng.choice([0, 0, 1])
    else:
        used = set()
        extra = ncols if ncols is not None else rng.choice([1, 2, 2, 3, 4])
    for _ in range(extra):
        r = rng.random()
        cols, subqs = [], []
        if r < 0.08:
            pass  # literal only
        elif r < 0.55:
            cols = [rng.choice(all_names)]
        elif r < 0.85:
            cols = [rng.choice(all_names) for _ in range(rng.choice([2, 2, 3]))]
        else:
            if rng.random() < 0.5:
                cols = [rng.choice(all_names)]
            subqs = [gen_query(rng, max(depth - 1, 0), ncols=1, allow_union=rng.random() < 0.3)]
            if rng.random() < 0.2:
                subqs.append(gen_query(rng, 0, ncols=1, allow_union=False))
            sq0 = subqs[0]
            if isinstance(sq0, Sel) and sq0.projs[0].kind == "expr" and rng.random() < 0.5:
                # correlate: the inner expression also uses a column of THIS select's sources; it is written bare or
                # alias-qualified, so neither the name nor the alias may be captured by the inner FROM list
                inner_cols = {n for _, s_ in sq0.frm for n in src_names(s_)}
                inner_al = {a for a, _ in sq0.frm}
                # (a bare name equal to an inner table ALIAS is a whole-row reference in bigquery / postgres / duckdb)
                cand = [(a, c) for a, c in all_names if c not in inner_cols and a not in inner_al and c not in inner_al
                        and flat.count(c) == 1]
                if cand:
                    sq0.projs[0] = P("expr", sq0.projs[0].name, sq0.projs[0].cols, sq0.projs[0].subqs, bare=False,
                                     outer=[rng.choice(cand)])
        bare = len(cols) == 1 and not subqs and cols[0][1] not in used and rng.random() < 0.5
        if bare:
            name = cols[0][1]
        else:
            cand = [n for n in OUTNAMES if n not in used]
            name = rng.choice(cand) if cand else "o%d" % len(used)
        used.add(name)
        projs.append(P("expr", name=name, cols=cols, subqs=subqs, bare=bare))
    where = rng.choice(all_names) if rng.random() < 0.3 else None
    if sel_bare and any(p.kind == "qstar" for p in projs):
        sel_bare = False
        for _, s_ in frm:
            if isinstance(s_, S):
                s_.unaliased = False
    return Sel(projs, frm, where, distinct=rng.random() < 0.1, bare=sel_bare)


def simple_body(rng, table, out):
    """SELECT <col> AS <out…> FROM <table>: a CTE / derived-table body with the given output names"""
    cols = BASE[table]
    return Sel([P("expr", o, [(table, rng.choice(cols))]) for o in out], [(table, T(table))])


def gen_nested_with(rng, shape=None, shadow=None):
    """WITH nested inside a derived table / scalar subquery / CTE body whose CTE name N shadows an outer CTE or a base
    table, with siblings before and after that select from the same name, all under an outer WITH with >= 1 CTE.
    Ground truth is LEXICAL scoping, built in by construction: an `R` source points at the definition visible where it
    is written (the inner one inside the branch that defines it, the outer CTE / the base table in the siblings)."""
    shape = shape or rng.choice(["derived", "derived", "scalar", "cte-body", "earlier-sibling"])
    shadow = shadow or rng.choice(["cte", "cte", "table"])
    out = rng.sample(["x", "y", "z"], rng.choice([1, 2]))
    tabs = rng.sample(["t", "u", "v", "orders"], 3)
    if shadow == "cte":
        name = rng.choice(["c", "k"])
        outer_def = simple_body(rng, tabs[0], out)
        root_withs = [(name, outer_def)]

        def outer_ref():
            return R(name, outer_def)
    else:
        name = tabs[0]  # the nested CTE is named like a base table; the siblings mean the TABLE
        other = simple_body(rng, tabs[2], ["m"])
        root_withs = [("k", other)]

        def outer_ref():
            return T(name)
    inner_def = simple_body(rng, tabs[1], out if shadow == "cte" else list(BASE[name])[:len(out)])
    cols_of = (lambda: out) if shadow == "cte" else (lambda: list(BASE[name])[:len(out)])
    names = cols_of()

    def pick(alias, src):
        # SELECT <names> FROM <src> AS alias
        return Sel([P("expr", n, [(alias, n)], bare=True) for n in names], [(alias, src)])

    early_body = pick("w", R(name, inner_def))
    early_body.withs = [(name, inner_def)]
    early = S(early_body)
    late = S(pick("e", outer_ref()))
    before = S(pick("d", outer_ref()))  # a sibling BEFORE the nested WITH sees the outer meaning as well
    n0 = names[0]
    if shape == "scalar":
        sq = Sel([P("expr", "s", [("e", n0)])], [("e", outer_ref())])
        root = Sel([P("expr", "qa", [("q", n0)]), P("expr", "ra", [], [sq])], [("q", early)])
    elif shape == "earlier-sibling":
        root = Sel([P("expr", "pa", [("p", n0)]), P("expr", "qa", [("q", n0)]), P("expr", "ra", [("r", n0)])],
                   [("p", before), ("q", early), ("r", late)])
    else:
        root = Sel([P("expr", "qa", [("q", n0)]), P("expr", "ra", [("r", names[-1])])], [("q", early), ("r", late)])
    if shape == "cte-body":
        # the siblings live inside the body of a LATER CTE of the outer WITH
        for s_ in (early, late, before):
            s_.inline_only = True
        body = root
        root = Sel([P("expr", "qa", [("f", "qa")], bare=True), P("expr", "ra", [("f", "ra")], bare=True)], [("f", R("w2", body))])
        root.withs = root_withs + [("w2", body)]
    else:
        root.withs = root_withs
    root.family = f"nested-with:{shape}:{shadow}"
    return root


def gen_query(rng, depth, ncols=None, allow_union=True):
    if allow_union and rng.random() < 0.22:
        left = gen_query(rng, depth, ncols=ncols, allow_union=rng.random() < 0.3)
        n = len(out_names(left))
        right = gen_select(rng, depth, ncols=n)
        return Uni(rng.choice(["UNION", "UNION ALL", "UNION ALL", "INTERSECT", "EXCEPT"]), left, right)
    return gen_select(rng, depth, ncols=ncols)


# ------------------------------------------------------------------------------------------ rendering
class Ctx:
    def __init__(self, pres, path, ren, dialect=None, style=0, nameforms=()):
        self.nameforms = tuple(nameforms)  # how the n-th source / CTE is NAMED (see source_name_text)
        self.dialect = dialect
        self.style = style  # bit 1: dialect-quoted identifiers, bit 2: string-literal operands, bit 4: double-quoted literals
        self.pres = pres  # inline | cte | src
        self.path = path  # "" | "db." | "cat.db."
        self.ren = ren
        self.named = {}  # (id(q), collist-on-definition) -> name
        self.ctes = []
        self.sources = {}

    def name_for(self, s):
        defcl = tuple(s.collist) if (s.collist and not s.ref_collist and self.pres == "cte") else None
        key = (id(s.q), defcl)
        if key not in self.named:
            body = render(s.q, self)
            n = len(self.named) + 1
            form = self.nameforms[(n - 1) % len(self.nameforms)] if self.nameforms else 0
            name = source_name_text(form, n, self.dialect, self.pres == "cte")
            self.named[key] = name
            if self.pres == "cte":
                head = name + ("(" + ", ".join(defcl) + ")" if defcl else "")
                self.ctes.append(f"{head} AS ({body})")
            else:
                self.sources[name] = body
        return self.named[key]


NAME_KW = ["select", "order", "group", "table"]
NAME_FORMS = {0: "plain", 1: "quoted-mixed", 2: "quoted-lower", 3: "quoted-upper", 4: "quoted-space", 5: "quoted-keyword",
              6: "unquoted-mixed", 7: "db-qualified", 8: "quoted-qualified", 9: "shared-last-part", 10: "quoted-shared-last-part"}
NAME_DBS = ["stg", "mart", "fx", "ods", "dw"]


def source_name_text(form, n, dialect, cte):
    """the SQL text naming the n-th source: used verbatim as the `sources=` dict key and as the table reference
    (what a user would pass: sources={'"Orders1"': 'SELECT …'}); as CTE name in the CTE presentation (qualifier dropped).
    Names stay distinct under every normalisation strategy (the index is part of the name)."""
    _, exp, *_ = sg()

    def qid(name):
        return exp.to_identifier(name, quoted=True).sql(dialect=dialect)

    if form == 1:
        return qid(f"Orders{n}")
    if form == 2:
        return qid(f"orders{n}")
    if form == 3:
        return qid(f"ORDERS{n}")
    if form == 4 or (form == 5 and n > len(NAME_KW)):
        return qid(f"my src{n}")
    if form == 5:
        return qid(NAME_KW[n - 1])
    if form == 6:
        return f"Orders{n}"
    if form == 7:
        return f"src{n}" if cte else f"db.src{n}"
    if form == 8:
        return qid(f"Src{n}") if cte else qid("Db") + "." + qid(f"Src{n}")
    if form in (9, 10):
        # several qualified sources sharing their LAST part (stg.orders / mart.orders / …; also the base table `orders`)
        db = NAME_DBS[(n - 1) % len(NAME_DBS)] + ("" if n <= len(NAME_DBS) else str(n))
        if cte:
            return db + "_orders"
        return f"{db}.orders" if form == 9 else qid(db.capitalize()) + "." + qid("Orders")
    return ("c%d" if cte else "s%d") % n


def render_source(alias, s, ctx):
    al = ctx.ren(alias)
    if isinstance(s, T):
        if al == s.name and ctx.ren(alias) == alias:
            return ctx.path + s.name
        return f"{ctx.path}{s.name} AS {al}"
    if isinstance(s, R):
        return f"{s.ref_name} AS {al}"
    cl = "(" + ", ".join(s.collist) + ")" if s.collist else ""
    if ctx.pres == "inline" or s.inline_only:
        return f"({render(s.q, ctx)}) AS {al}{cl}"
    name = ctx.name_for(s)
    if ctx.pres == "cte" and s.collist and not s.ref_collist:
        cl = ""
    if ctx.pres == "src" and s.unaliased and not cl:
        return name  # no alias: exp.expand names the derived table after the (full, normalised) source name
    return f"{name} AS {al}{cl}"


def render(q, ctx, outer=None):
    if isinstance(q, Uni):
        op = q.op
        if ctx.dialect == "bigquery" and not op.endswith("ALL"):
            op += " DISTINCT"
        return f"{render(q.left, ctx, outer)} {op} {render(q.right, ctx, outer)}"
    # a column may be written unqualified when its name is unique among the sources
    counts = {}
    for _, s in q.frm:
        for n in src_names(s):
            counts[n] = counts.get(n, 0) + 1

    # dialect-rendered decorations (same text in every presentation, so also INSIDE `sources=` strings and CTE
    # bodies): quoted identifiers in the dialect's own quoting, and string literals whose text is a column name --
    # written with double quotes where the dialect reads "x" as a string (mysql, bigquery, spark, hive).  A parse
    # of any piece of the query under the wrong dialect then yields a ParseError or a phantom column.
    qsafe, dq_is_string = dialect_traits(ctx.dialect)

    def qid(c, i):
        if (ctx.style & 1) and qsafe and (sum(map(ord, c)) + i) % 2 == 0:
            return sg()[1].to_identifier(c, quoted=True).sql(dialect=ctx.dialect)
        return c

    def strlit(i):
        names = [n for _, s_ in q.frm for n in src_names(s_)]
        txt = names[i % len(names)] if names else "a"
        if (ctx.style & 4) and dq_is_string:
            return '"' + txt + '"'
        return "'" + txt + "'"

    aliases_here = {a_ for a_, _ in q.frm}

    def colref(a, c, i):
        if q.bare or (counts.get(c) == 1 and c not in aliases_here and ((sum(map(ord, a + c)) + i) % 3 == 0)):
            return qid(c, i)
        return f"{ctx.ren(a)}.{qid(c, i)}"

    def outerref(a, c, i):
        # a column of the enclosing select (generation guarantees: `c` is not a column of this FROM list, `a` is not
        # one of its aliases, and `c` is unique among the enclosing sources)
        if outer is None:
            raise HarnessError("correlated projection rendered without its enclosing select")
        if outer.bare or (sum(map(ord, a + c)) + i) % 2 == 0:
            return qid(c, i)
        return f"{ctx.ren(a)}.{qid(c, i)}"

    items = []
    for i, p in enumerate(q.projs):
        if p.kind == "star":
            items.append("*")
        elif p.kind == "qstar":
            items.append(f"{ctx.ren(p.alias)}.*")
        else:
            parts = ([colref(a, c, i) for a, c in p.cols] + [outerref(a, c, i) for a, c in p.outer]
                     + [f"({render(sq, ctx, q)})" for sq in p.subqs])
            if (ctx.style & 2) and not p.bare and (not parts or (i + len(parts)) % 2 == 0):
                parts = parts + [strlit(i)]
            e = " + ".join(parts) if parts else "1"
            items.append(e if p.bare else f"{e} AS {p.name}")
    frm = ", ".join(render_source(a, s, ctx) for a, s in q.frm) if len(q.frm) == 1 else (
        render_source(*q.frm[0], ctx) + "".join(" CROSS JOIN " + render_source(a, s, ctx) for a, s in q.frm[1:]))
    sql = ("SELECT DISTINCT " if q.distinct else "SELECT ") + ", ".join(items) + " FROM " + frm
    if q.withs:
        defs = ", ".join(f"{n} AS ({render(wq, ctx)})" for n, wq in q.withs)
        if q is ctx.root:
            ctx.root_with = defs  # joined with the hoisted CTEs by present()
        else:
            sql = f"WITH {defs} {sql}"
    if q.where:
        sql += f" WHERE {q.where[1]} > 0" if q.bare else f" WHERE {ctx.ren(q.where[0])}.{q.where[1]} > 0"
    return sql


_TRAITS = {}


def dialect_traits(dialect):
    """(quoting a lower-case name keeps it resolvable, a double-quoted token is a string literal)"""
    dialect = dialect if dialect is None or isinstance(dialect, str) else str(dialect)
    if dialect not in _TRAITS:
        from sqlglot.dialects.dialect import Dialect

        import sqlglot
        from sqlglot import exp as _exp

        d = Dialect.get_or_raise(dialect)
        try:
            dq = isinstance(sqlglot.parse_one('SELECT "a"', dialect=dialect).expressions[0], _exp.Literal)
        except Exception:  # noqa
            dq = False
        _TRAITS[dialect] = (d.normalization_strategy.value not in ("UPPERCASE", "CASE_INSENSITIVE_UPPERCASE"), dq)
    return _TRAITS[dialect]


def present(q, pres, path="", ren=lambda a: a, dialect=None, style=0, nameforms=()):
    ctx = Ctx(pres, path, ren, dialect, style, nameforms)
    ctx.root, ctx.root_with = q, None
    body = render(q, ctx)
    if style & 8:
        body = "(" + body + ")"  # parenthesised root query
    defs = ([ctx.root_with] if ctx.root_with else []) + ctx.ctes  # the query's own WITH first: hoisted bodies may use it
    if defs:
        body = "WITH " + ", ".join(defs) + " " + body
    return body, (ctx.sources or None)


def make_schema(path):
    cols = {t: {c: "int" for c in cs} for t, cs in BASE.items()}
    if path == "":
        return cols
    if path == "db.":
        return {"db": cols}
    return {"cat": {"db": cols}}


# ------------------------------------------------------------------------------------------ the real side
def sg():
    import sqlglot
    from sqlglot import exp
    import sqlglot.lineage as L
    from sqlglot.optimizer import build_scope, qualify
    from sqlglot.optimizer.scope import Scope, ScopeType, find_all_in_scope

    return sqlglot, exp, L, build_scope, qualify, Scope, ScopeType, find_all_in_scope


def table_id(tbl):
    return ".".join(p for p in (tbl.catalog, tbl.db, tbl.name) if p)


def node_leaves(node):
    _, exp, *_ = sg()
    out = set()
    for n in node.walk():
        if n.downstream:
            continue
        e = n.expression
        if isinstance(e, exp.Table):
            out.add((table_id(e).lower(), n.name.split(".")[-1].strip('"`[]').lower()))
        elif isinstance(e, exp.Placeholder):
            out.add(("<placeholder>", n.name.split(".")[-1].strip('"`[]').lower()))
    return sorted(out)


def real_leaves(col, sql, sources, schema, dialect):
    """-> sorted leaf list for one column, dict for col=None, or ('exc', text)"""
    L = sg()[2]
    import logging

    logging.getLogger("sqlglot").setLevel(logging.ERROR)
    try:
        r = L.lineage(col, sql, schema=schema, sources=sources, dialect=dialect)
    except Exception as e:  # noqa
        return ("exc", f"{type(e).__name__}: {str(e)[:120]}")
    if isinstance(r, dict):
        return {k.lower(): node_leaves(v) for k, v in r.items()}
    return node_leaves(r)


def norm_truth(s):
    return sorted((t.lower(), c.lower()) for t, c in s)


# ------------------------------------------------------------------------------------------ model side
def qualified(sql, sources, schema, dialect, do_expand=True, mark_noalias=False):
    """parse / expand / qualify exactly as lineage() does"""
    sqlglot, exp, L, build_scope, qualify, Scope, ScopeType, find_all_in_scope = sg()
    from sqlglot import maybe_parse
    from sqlglot.schema import ensure_schema

    expression = maybe_parse(sql, dialect=dialect)
    if mark_noalias:
        for tb in expression.find_all(exp.Table):
            if not tb.alias:
                tb.meta["c17_noalias"] = True  # qualify_tables will give it an alias; remember it had none
    if sources and do_expand:
        expression = exp.expand(expression, {k: maybe_parse(v, dialect=dialect) for k, v in sources.items()}, dialect=dialect)
    sch = ensure_schema(schema, dialect=dialect)
    return qualify.qualify(expression, dialect=dialect, schema=sch, validate_qualify_columns=False, identify=False)


def to_model(sql, sources, schema, dialect):
    """qualify exactly as lineage() does, build_scope, flatten -> (request dict, root scope, idx map) or None if the
    query uses something the model does not represent"""
    expression = qualified(sql, sources, schema, dialect)
    m = scopes_of(expression)
    if m is None:
        return None
    req, root, idx = m
    return req, root, idx, expression


def add_table(schema, path, tbl, cols, dialect):
    """a copy of the nested schema dict with one more table: next to the base tables for a one-part name, under its own
    db for a two-part name (needs a schema of depth >= 2).  None when it cannot be placed."""
    import copy

    sch = copy.deepcopy(schema)
    parts = [p.sql(dialect=dialect) for p in tbl.parts]
    levels = [p for p in path.split(".") if p]
    if len(parts) == 1:
        d = sch
        for part in levels:
            d = d[part]
        d[parts[0]] = {c: "int" for c in cols}
        return sch
    if len(parts) == 2 and levels:
        d = sch
        for part in levels[:-1]:
            d = d[part]
        d.setdefault(parts[0], {})[parts[1]] = {c: "int" for c in cols}
        return sch
    return None


def ident_parts(tbl):
    return [[p.name, bool(p.args.get("quoted"))] for p in tbl.parts]


def base_normalizer(dialect):
    """-> strategy name if the dialect's normalize_identifier is the base implementation the Ident model mirrors"""
    from sqlglot.dialects.dialect import Dialect

    d = Dialect.get_or_raise(dialect)
    if type(d).normalize_identifier is Dialect.normalize_identifier:
        return d.normalization_strategy.value
    return None


def unresolved(scopes):
    """a column the stand-alone qualification of a piece could not attribute to a source (the augmented schema is
    harness machinery: such a piece says nothing about expand)"""
    for sc in scopes:
        if sc["k"] == "select":
            for p in sc["projs"] + [sc["fb"]]:
                if any(t == "" for t, _ in p["cols"]):
                    return True
    return False


def implicit_alias_clash(m):
    """stand-alone qualification names an un-aliased table after its LAST part; when that name also occurs elsewhere in
    the same piece (an enclosing scope) the qualifiers it hands out are ambiguous between the two, so the piece is
    not a faithful pre-image of the expanded query (the search oracle covers these shapes)"""
    if m.get("borrowed"):
        # sources borrowed from an enclosing scope (correlated subquery, when the source looks them up): in the
        # un-expanded piece they are still table references and would be instantiated a second time
        return True
    aliases = [a for sc in m["scopes"] if sc["k"] == "select" for a, _ in sc["srcs"]]
    return any(aliases.count(a) > 1 for _, a in m["implicit"])


def to_model_unexpanded(sql, sources, schema, path, dialect):
    """the `sources=` presentation WITHOUT running exp.expand: every source query and the main query are qualified on
    their own (the other sources visible as plain tables with their output columns) and flattened separately;
    the Lean model does the expansion AND the key lookup: definition keys and table references travel as identifier
    parts (name, quoted) plus the dialect's normalisation strategy.  -> request dict with "defs", or None"""
    _, exp, *_ = sg()
    from sqlglot.optimizer.normalize_identifiers import normalize_identifiers

    strategy = base_normalizer(dialect)
    if strategy is None:
        # dialects with their own normalize_identifier (bigquery: a single-part table name in a query is folded,
        # the same name as a schema key is not): the augmented schema of this harness cannot present a case-altering
        # source name as a table, so only plain names take part here; the search oracle covers the rest
        from sqlglot.expressions import normalize_table_name

        if any(normalize_table_name(k, dialect=dialect) != k for k in sources):
            return None
    sch = schema
    defs, refs = [], {}
    for name, body in sources.items():  # dependency order: inner sources were registered first
        tbl = exp.to_table(name, dialect=dialect)
        if strategy is None:
            tbl = normalize_identifiers(tbl, dialect=dialect)  # dialect-specific folding done by the real code
        e = qualified(body, None, sch, dialect, mark_noalias=True)
        m = scopes_of(e, refs)
        if m is None or m[0]["root"] != len(m[0]["scopes"]) - 1 or unresolved(m[0]["scopes"]) or implicit_alias_clash(m[0]):
            return None
        defs.append({"key": ident_parts(tbl), "scopes": m[0]["scopes"], "implicit": m[0]["implicit"]})
        sch = add_table(sch, path, exp.to_table(name, dialect=dialect), e.named_selects, dialect)
        if sch is None:
            return None  # a qualified key over a flat schema: not placeable (covered by the search oracle)
    e = qualified(sql, None, sch, dialect, mark_noalias=True)
    m = scopes_of(e, refs)
    if m is None or m[0]["root"] != len(m[0]["scopes"]) - 1 or unresolved(m[0]["scopes"]) or implicit_alias_clash(m[0]):
        return None
    if strategy is None:
        refs = {k: ident_parts(normalize_identifiers(exp.to_table(".".join(exp.to_identifier(n, quoted=q).sql(dialect=dialect) for n, q in v), dialect=dialect), dialect=dialect)) for k, v in refs.items()}
    return {"defs": defs, "refs": [[k, v] for k, v in refs.items()], "strategy": strategy or "CASE_SENSITIVE",
            "scopes": m[0]["scopes"], "implicit": m[0]["implicit"], "cols": m[0]["cols"]}


def scopes_of(expression, refs=None):
    """build_scope + flatten (children first) -> (request dict, root scope, idx map) or None"""
    sqlglot, exp, L, build_scope, qualify, Scope, ScopeType, find_all_in_scope = sg()

    root = build_scope(expression)
    order = list(root.traverse())
    idx = {id(s): i for i, s in enumerate(order)}
    implicit = []
    borrowed = []

    def table_name(tbl):
        tid = table_id(tbl)
        if refs is not None:
            parts = ident_parts(tbl)
            if refs.setdefault(tid, parts) != parts:
                raise ValueError("two table references with one id and different quoting")
        return tid

    def proj(scope, sel, name):
        cols, seen = [], set()
        for c in find_all_in_scope(sel, exp.Column):
            k = (c.table, c.name)
            if k not in seen:
                seen.add(k)
                cols.append([c.table, c.name])
        sub = {id(s.expression): s for s in scope.subquery_scopes}
        subqs = []
        for sq in find_all_in_scope(sel, *exp.UNWRAPPED_QUERIES):
            ss = sub.get(id(sq))
            if ss is None:
                continue
            subqs.append([idx[id(ss)], list(sq.named_selects)])
        return {"name": name, "cols": cols, "subqs": subqs}

    out = []
    for s in order:
        e = s.expression
        if isinstance(e, exp.SetOperation):
            if len(s.union_scopes) != 2 or any(x.is_star for x in e.selects):
                return None
            out.append({"k": "union", "op": type(e).__name__.upper(), "l": idx[id(s.union_scopes[0])],
                        "r": idx[id(s.union_scopes[1])], "names": [x.alias_or_name for x in e.selects]})
        elif isinstance(e, exp.Subquery) and wrap_inner(s) is not None:
            out.append({"k": "wrap", "inner": idx[id(wrap_inner(s))]})
        elif isinstance(e, (exp.Select, exp.Subquery)):
            # a Subquery-rooted scope whose inner scope the wrapper branch does not find falls through to the
            # generic path of to_node with `selectable.selects` = the inner query's projections
            if e.is_star or s.pivots or s.udtf_scopes:
                return None
            source_names = {dt.alias: dt.comments[0].split()[1] for dt in s.derived_tables
                            if dt.comments and dt.comments[0].startswith("source: ")}
            srcs = []
            visible = list(s.sources.items())
            if OUTER_LOOKUP[0]:
                # the source form that looks a correlated column up in the enclosing scopes (nearest first)
                own = set(s.sources)
                outer_scope = s
                while (outer_scope.is_subquery or outer_scope.is_union) and outer_scope.parent:
                    outer_scope = outer_scope.parent
                    for alias, src in outer_scope.sources.items():
                        if alias not in own:
                            own.add(alias)
                            visible.append((alias, src))
                            borrowed.append(alias)
            for alias, src in visible:
                if not isinstance(src, Scope) and src.meta.get("c17_noalias") and alias in s.sources:
                    implicit.append([idx[id(s)], alias])
                if isinstance(src, Scope):
                    if src.scope_type not in (ScopeType.DERIVED_TABLE, ScopeType.CTE):
                        return None
                    ref = None
                    if src.scope_type == ScopeType.CTE:
                        sel_node, _ = s.selected_sources.get(alias, (None, None))
                        ref = sel_node.name if sel_node else None
                    srcs.append([alias, {"t": "scope", "idx": idx[id(src)], "cte": src.scope_type == ScopeType.CTE,
                                         "ref": ref, "tag": source_names.get(alias)}])
                else:
                    srcs.append([alias, {"t": "table", "name": table_name(src)}])
            out.append({"k": "select", "projs": [proj(s, x, x.alias_or_name) for x in e.selects],
                        "fb": proj(s, e, ""), "srcs": srcs})
        else:
            return None
    cols = [x.alias_or_name for x in root.expression.selects]
    return {"scopes": out, "root": idx[id(root)], "cols": cols, "implicit": implicit, "borrowed": borrowed}, root, idx


def cte_visibility(root, idx):
    """for every scope that branches derived tables / subqueries: the mapping it hands down computed LEXICALLY from the
    tree (inherited + own WITH), the names each child's own nested WITH defines, and what the REAL child scope resolves
    every name to (child.cte_sources).  -> (entries for the driver, real answers)"""
    _, exp, L, build_scope, qualify, Scope, ScopeType, find_all_in_scope = sg()

    def own(sc):
        return [[cte.alias, idx[id(cs)]] for cte, cs in zip(sc.ctes, sc.cte_scopes)] if len(sc.ctes) == len(sc.cte_scopes) else None

    entries, real = [], []

    def walk(sc, inherited):
        o = own(sc)
        if o is None:
            return
        env = list(reversed(o)) + inherited  # a later CTE of one WITH overrides an earlier one of the same name
        done = []
        for j, cs in enumerate(sc.cte_scopes):  # a CTE body sees the earlier CTEs of the same WITH
            walk(cs, list(reversed(o[:j])) + inherited)
        kids = [k for k in list(sc.table_scopes) + list(sc.subquery_scopes) if id(k) in idx and not any(k is c for c in sc.cte_scopes)]
        kids = [k for i_, k in enumerate(kids) if not any(k is k2 for k2 in kids[:i_])]
        owns = [own(k) for k in kids]
        if kids and all(x is not None for x in owns) and (env or any(owns)):
            names = sorted({n for n, _ in env} | {n for x in owns for n, _ in x})
            q, r = [], []
            for i_, k in enumerate(kids):
                for n in names:
                    v = k.cte_sources.get(n)
                    q.append([i_, n])
                    r.append(idx.get(id(v)) if isinstance(v, Scope) else None)
            entries.append({"E": env, "sibs": [list(reversed(x)) for x in owns], "q": q})
            real.append(r)
        for k in kids:
            walk(k, env)
        for us in sc.union_scopes:
            walk(us, inherited)

    walk(root, [])
    return entries, real


def wrap_inner(s):
    """the scope the Subquery-wrapper branch of to_node recurses into (None: it falls through), per the source form"""
    if WRAP_FORM[0] == "inner_query":
        inner_query = s.expression.unnest()
        for c in (*s.derived_table_scopes, *s.subquery_scopes):
            if c.expression is inner_query:
                return c
        return None
    return s.subquery_scopes[0] if s.subquery_scopes else None


def real_cache(root, idx, expression, dialect):
    """run the real lineage(None) on OUR scope objects, capturing the `_cache` dict -> canonical entries + leaves"""
    L = sg()[2]
    caught = {}
    orig = L.to_node

    def spy(*a, **kw):
        if kw.get("_cache") is not None:
            caught["cache"] = kw["_cache"]
        return orig(*a, **kw)

    L.to_node = spy
    try:
        res = L.lineage(None, expression, scope=root, dialect=dialect, copy=False)
    finally:
        L.to_node = orig
    entries = []
    for key, node in caught.get("cache", {}).items():
        if len(key) != 5:
            return {k: node_leaves_raw(v) for k, v in res.items()}, None
        column, sid, scope_name, source_name, ref = key
        entries.append({
            "col": ("i:%d" % column) if isinstance(column, int) else "n:" + column,
            "scope": idx.get(sid, -1), "scopeName": scope_name, "sourceName": source_name, "refName": ref,
            "node": node.name, "nodeSource": node.source_name, "nodeRef": node.reference_node_name,
            "leaves": [list(x) for x in node_leaves_raw(node)],
        })
    return {k: node_leaves_raw(v) for k, v in res.items()}, entries


def node_leaves_raw(node):
    _, exp, *_ = sg()
    out = set()
    for n in node.walk():
        if n.downstream:
            continue
        e = n.expression
        if isinstance(e, exp.Table):
            out.add((table_id(e), n.name.split(".")[-1].strip('"`[]')))
        elif isinstance(e, exp.Placeholder):
            out.add(("<placeholder>", n.name.split(".")[-1].strip('"`[]')))
    return sorted(out)


def canon_leaves(l):
    if l == "error":
        return "error"
    return sorted({(a, b) for a, b in l})


def canon_entries(entries):
    out = []
    for e in entries:
        lv = e["leaves"]
        out.append(json.dumps([e["col"], e["scope"], e["scopeName"], e["sourceName"], e["refName"], e["node"],
                               e["nodeSource"], e["nodeRef"],
                               "error" if lv == "error" else sorted({(a, b) for a, b in lv})]))
    return sorted(out)


# ------------------------------------------------------------------------------------------ the oracle
class Case:
    def __init__(self, q, path, dialect, style=0, nameforms=()):
        self.nameforms = tuple(nameforms)
        self.q = q
        self.path = path
        self.dialect = dialect
        self.style = style
        self.schema = make_schema(path)
        self.names = out_names(q)
        self.truth = [norm_truth(flow(q, i, path)) for i in range(len(self.names))]
        self.feats = features(q)
        oc = all_outer_cols(q)
        self.outer_names = {c.lower() for _, _, c in oc}
        self.outer_flow = {(t.lower(), c.lower()) for sel, a, c in oc for t, c in col_flow(sel, a, c, path)}
        if style & 8:
            self.feats.add("paren-root")
        if any(self.nameforms) and "sub" in self.feats:
            self.feats.add("named-sources")
            if any(f in (9, 10) for f in self.nameforms):
                self.feats.add("shared-last-part")

    def presentations(self):
        out = {}
        for pres in ("inline", "cte", "src"):
            out[pres] = present(self.q, pres, self.path, dialect=self.dialect, style=self.style, nameforms=self.nameforms)
        out["renamed"] = present(self.q, "inline", self.path, ren=lambda a: "r_" + a, dialect=self.dialect, style=self.style)
        return out


KNOWN_FEATS = ("ref-collist", "paren-root", "correlated")


def classify(got, exp_, outer_names, outer_flow):
    g, e = set(map(tuple, got)), set(map(tuple, exp_))
    kind = "missing" if e - g and not g - e else "extra" if g - e and not e - g else "wrong"
    if (outer_names and g - e and all(t == "<placeholder>" and c in outer_names for t, c in g - e)
            and (e - g) <= set(map(tuple, outer_flow))):
        # the outer column of a correlated subquery ends in a Placeholder leaf (and what flows into it is missing
        # unless it arrives by another path too)
        kind = "unresolved-outer"
    return kind


def dialect_arg(case):
    """what is passed as `dialect=`: the spec string, or (settings-switch sequences) a Dialect INSTANCE built from it"""
    if getattr(case, "as_instance", False):
        from sqlglot.dialects.dialect import Dialect

        return Dialect.get_or_raise(case.dialect)
    return case.dialect


def oracle(case, only=None):
    """-> list of violations (kind, column, detail dict). Evaluates the property's statement on the real code."""
    viol = []
    pres = case.presentations()
    per = {}
    for name, (sql, sources) in pres.items():
        if only and name not in only and name != "inline":
            continue
        allr = real_leaves(None, sql, sources, case.schema, dialect_arg(case))
        per[name] = (sql, sources, allr)
        if isinstance(allr, tuple):
            continue  # judged below: an exception counts when the other presentations do not raise the same way
        if sorted(allr) != sorted(n.lower() for n in case.names):
            viol.append(("columns", None, {"pres": name, "sql": sql, "sources": sources, "got": sorted(allr),
                                           "expected": sorted(case.names)}))
            continue
        for i, col in enumerate(case.names):
            got_all = allr[col.lower()]
            exp_ = case.truth[i]
            n = len(case.names)
            one = real_leaves(col, sql, sources, case.schema, dialect_arg(case)) if (n <= 3 or i in (0, n // 2, n - 1)) else got_all
            if one != got_all:
                viol.append(("all-vs-one", col, {"pres": name, "sql": sql, "sources": sources, "all": got_all, "one": one}))
            got = one if not isinstance(one, tuple) else got_all
            if [list(x) for x in got] != [list(x) for x in exp_]:
                kind = classify(got, exp_, case.outer_names if "correlated" in case.feats else (), case.outer_flow)
                viol.append((kind, col, {"pres": name, "sql": sql, "sources": sources, "got": [list(x) for x in got],
                                         "expected": [list(x) for x in exp_]}))
    # the three-presentations clause for exceptions: a presentation that raises while another one answers (or raises
    # a different error class) violates it; every presentation raising the same error class does not
    raising = {n: v[2][1] for n, v in per.items() if isinstance(v[2], tuple)}
    if raising:
        classes = {t.split(":")[0] for t in raising.values()}
        if len(raising) < len(per) or len(classes) > 1:
            fine = [[v[0], v[1]] for n, v in per.items() if n not in raising]
            for n, text in raising.items():
                viol.append(("exception", None, {"pres": n, "sql": per[n][0], "sources": per[n][1], "got": text,
                                                 "others": fine, "one_presentation": len(raising) == 1}))
    return viol, per


SWITCH_CLASSES = ["snowflake", "duckdb", "postgres", "mysql"]
SWITCH_SETTINGS = ["", ", normalization_strategy=case_sensitive", ", normalization_strategy=case_insensitive",
                   ", normalization_strategy=uppercase", ", normalization_strategy=lowercase"]


def settings_switch(chk, q, path, style, nameforms, specs):
    """the same query and the SAME source-name strings traced under a sequence of Dialect OBJECTS of one class that
    differ only in settings, in this process, in this order.  A step whose presentations disagree with each other (leaves,
    or one raises and another answers), or that disagrees with the syntactic flow while the very same step evaluated
    FIRST would not, depends on process history -> kind `settings-switch`.  Steps on which every presentation gives the
    same wrong/failed answer are not counted (the spec makes the query unresolvable)."""
    steps = []
    for k, spec in enumerate(specs):
        case = Case(q, path, spec, style, nameforms)
        case.as_instance = True
        viol, per = oracle(case)
        steps.append({"spec": spec, "presentations": {n: [v[0], v[1]] for n, v in per.items()}})
        answers = {n: (v[2] if not isinstance(v[2], tuple) else ("exc", v[2][1].split(":")[0])) for n, v in per.items()}
        same = all(a == answers["inline"] for n, a in answers.items() if n != "renamed")
        chk.count("switch:steps")
        if not viol or same:
            continue
        if k == 0:
            return  # the first spec itself has an (ordinary) finding: reported by the ordinary oracle, not a switch effect
        v = sorted(viol, key=lambda x: (x[2].get("pres") != "src", x[0]))[0]
        kind, col, d = v
        key = f"settings-switch|{d['pres']}|" + "+".join(sorted(case.feats))
        chk.report_violation(
            key, f"after tracing under {specs[:k]} the same query under {spec!r} answers differently in the {d['pres']} presentation: "
                 f"{d['sql'][:160]} column={col} got={d.get('got') or d.get('one')} expected={d.get('expected')}",
            {"kind": "settings-switch", "steps": steps, "schema": case.schema, "presentation": d["pres"], "column": col,
             "expected": d.get("expected"), "got": d.get("got") or d.get("one"), "was": kind},
            context={"presentation": d["pres"], "dialect": spec})
        return


def replay_switch(rp):
    """re-run the whole sequence in order (fresh process): violates iff the LAST step's recorded presentation differs from
    the recorded flow / raises while another presentation answers"""
    from sqlglot.dialects.dialect import Dialect

    last = None
    for st in rp["steps"]:
        d = Dialect.get_or_raise(st["spec"])
        last = {n: real_leaves(None, sq[0], sq[1], rp["schema"], d) for n, sq in st["presentations"].items()}
    got = last[rp["presentation"]]
    col = rp.get("column")
    if isinstance(got, tuple):
        ok = [n for n, v in last.items() if not isinstance(v, tuple)]
        return bool(ok), f"last step raises {got[1]} in {rp['presentation']}; presentations that answer: {ok}"
    if col is None or rp.get("expected") is None:
        others = {n: v for n, v in last.items() if n != "renamed" and not isinstance(v, tuple)}
        bad = any(v != got for v in others.values())
        return bad, f"last step: presentations {'disagree' if bad else 'agree'}"
    g = got.get(col.lower())
    exp_ = [tuple(x) for x in rp["expected"]]
    return (g != exp_), f"last step ({rp['steps'][-1]['spec']!r}, {rp['presentation']}): leaves of {col!r} = {g}, syntactic flow {exp_}"


def replay_of(case, kind, col, d):
    return {"kind": kind, "column": col, "sql": d["sql"], "sources": d.get("sources"), "schema": case.schema,
            "dialect": case.dialect, "presentation": d.get("pres"), "expected": d.get("expected"),
            "got": d.get("got") or d.get("one"), "features": sorted(case.feats), "others": d.get("others"),
            "outer_names": sorted(case.outer_names) if "correlated" in case.feats else [],
            "outer_flow": sorted(map(list, case.outer_flow))}


def check_replay(rp):
    """re-evaluate one stored replay on the real code -> (violates: bool, text)"""
    sql, sources, schema, dialect, col = rp["sql"], rp.get("sources"), rp["schema"], rp.get("dialect"), rp.get("column")
    kind = rp["kind"]
    if kind in ("exception", "columns"):
        r = real_leaves(None, sql, sources, schema, dialect)
        if isinstance(r, tuple):
            others = rp.get("others")
            if kind == "exception" and others is not None:
                ok = [o for o in others if not isinstance(real_leaves(None, o[0], o[1], schema, dialect), tuple)]
                if not ok:
                    return False, f"every presentation raises ({r[1]})"
                return True, f"lineage(None) raises {r[1]} in this presentation while {len(ok)} equivalent presentation(s) answer"
            return True, f"lineage(None) raises {r[1]}"
        if kind == "columns" and sorted(r) != sorted(n.lower() for n in rp["expected"]):
            return True, f"output columns {sorted(r)} != {rp['expected']}"
        return False, "no exception"
    one = real_leaves(col, sql, sources, schema, dialect)
    if kind == "all-vs-one":
        allr = real_leaves(None, sql, sources, schema, dialect)
        a = allr.get(col.lower()) if isinstance(allr, dict) else allr
        return (a != one), f"lineage(None)[{col}]={a} vs lineage({col})={one}"
    exp_ = [tuple(x) for x in rp["expected"]]
    got = one if isinstance(one, tuple) else [tuple(x) for x in one]
    if got != exp_ and not isinstance(one, tuple) and kind != "unresolved-outer":
        now = classify(got, exp_, set(rp.get("outer_names") or ()), rp.get("outer_flow") or ())
        if now == "unresolved-outer":
            return False, (f"leaves of {col!r}: got {got}: differs from the syntactic flow {exp_} only by the outer column of the "
                           f"correlated subquery ending in a Placeholder (separate finding), not by the recorded {kind!r} defect")
    return (got != exp_), f"leaves of {col!r}: got {got}, syntactic flow {exp_}"


# ------------------------------------------------------------------------------------------ minimisation
def all_outer_cols(q, enclosing=None, acc=None):
    """every (enclosing select, alias, column) used by a correlated scalar subquery anywhere in the query"""
    acc = acc if acc is not None else []
    if isinstance(q, Uni):
        all_outer_cols(q.left, enclosing, acc)
        all_outer_cols(q.right, enclosing, acc)
        return acc
    for p in q.projs:
        for a, c in p.outer:
            acc.append((enclosing, a, c))
        for sq in p.subqs:
            all_outer_cols(sq, q, acc)
    for _, s_ in q.frm:
        if isinstance(s_, S):
            all_outer_cols(s_.q, None, acc)
    return acc


def keep_flags(new, old):
    new.inline_only = old.inline_only
    return new


def outer_refs(sq):
    if isinstance(sq, Uni):
        return outer_refs(sq.left) + outer_refs(sq.right)
    return [ac for p in sq.projs for ac in p.outer]


def _shrink_candidates(q):
    """smaller queries (structurally): yields (new_q) — drop a projection, replace a sub-query source by a base table
    of the same column names is not possible in general, so: unwrap union branches, drop scalar subqueries, drop WHERE,
    drop a collist, drop a second source when unused, recurse into sub-queries"""
    if isinstance(q, Uni):
        yield q.left
        for l2 in shrink_candidates(q.left):
            if len(out_names(l2)) == len(out_names(q.left)):
                yield Uni(q.op, l2, q.right)
        for r2 in shrink_candidates(q.right):
            if len(out_names(r2)) == len(out_names(q.right)):
                yield Uni(q.op, q.left, r2)
        return
    if len(q.projs) > 1:
        for i in range(len(q.projs)):
            yield Sel(q.projs[:i] + q.projs[i + 1:], q.frm, q.where, q.distinct, q.bare)
    if q.where:
        yield Sel(q.projs, q.frm, None, q.distinct, q.bare)
    if q.distinct:
        yield Sel(q.projs, q.frm, q.where, False, q.bare)
    corr = [ac for p in q.projs for sq in p.subqs for ac in outer_refs(sq)]  # columns of THIS select used by inner subqueries
    used = {a for p in q.projs for a, _ in p.cols} | {p.alias for p in q.projs if p.kind == "qstar"} | {a for a, _ in corr}
    if not any(p.kind == "star" for p in q.projs) and len(q.frm) > 1:
        for i, (a, _) in enumerate(q.frm):
            if a not in used and (not q.where or q.where[0] != a):
                yield Sel(q.projs, q.frm[:i] + q.frm[i + 1:], q.where, q.distinct, q.bare)
    for i, p in enumerate(q.projs):
        if p.kind == "expr":
            if p.subqs:
                yield Sel(q.projs[:i] + [P("expr", p.name, p.cols, p.subqs[1:], bare=False, outer=p.outer)] + q.projs[i + 1:], q.frm, q.where, q.distinct, q.bare)
                for j, sq in enumerate(p.subqs):
                    for sq2 in shrink_candidates(sq):
                        if len(out_names(sq2)) == 1:
                            yield Sel(q.projs[:i] + [P("expr", p.name, p.cols, p.subqs[:j] + [sq2] + p.subqs[j + 1:], bare=False, outer=p.outer)] + q.projs[i + 1:], q.frm, q.where, q.distinct, q.bare)
            if len(p.cols) > 1:
                for j in range(len(p.cols)):
                    yield Sel(q.projs[:i] + [P("expr", p.name, p.cols[:j] + p.cols[j + 1:], p.subqs, bare=False, outer=p.outer)] + q.projs[i + 1:], q.frm, q.where, q.distinct, q.bare)
    for i, (a, s) in enumerate(q.frm):
        if isinstance(s, S) and not isinstance(s, R):
            names = src_names(s)
            if s.collist:
                # keep the visible names: only droppable when identical to the inner names
                if list(s.collist) == out_names(s.q):
                    yield Sel(q.projs, q.frm[:i] + [(a, keep_flags(S(s.q, None, False, s.unaliased), s))] + q.frm[i + 1:], q.where, q.distinct, q.bare)
            for q2 in shrink_candidates(s.q):
                s2 = keep_flags(S(q2, s.collist, s.ref_collist, s.unaliased), s)
                try:
                    n2 = src_names(s2)
                except Exception:  # noqa
                    continue
                needed = {c for aa, c in corr if aa == a} | {c for p in q.projs for aa, c in p.cols if aa == a} | ({q.where[1]} if q.where and q.where[0] == a else set())
                star = any(p.kind == "star" or (p.kind == "qstar" and p.alias == a) for p in q.projs)
                if s.collist and len(out_names(q2)) != len(s.collist):
                    continue
                if (star and n2 != names) or not needed <= set(n2) or len(set(n2)) != len(n2):
                    continue
                if q.bare or corr:
                    allf = [n for aa, ss in q.frm for n in (n2 if aa == a else src_names(ss))]
                    if len(set(allf)) != len(allf):
                        continue
                # every other reference to the same shared sub-query keeps pointing at the old one (sharing may be lost)
                yield Sel(q.projs, q.frm[:i] + [(a, s2)] + q.frm[i + 1:], q.where, q.distinct, q.bare)


def shrink_candidates(q):
    """as _shrink_candidates, keeping a select's own WITH (definitions are never shrunk: references point at them)"""
    for q2 in _shrink_candidates(q):
        if isinstance(q, Sel) and isinstance(q2, Sel) and q.withs and not q2.withs:
            q2.withs = q.withs
        yield q2


def size(q):
    if isinstance(q, Uni):
        return 1 + size(q.left) + size(q.right)
    n = 1 + len(q.projs) + (1 if q.where else 0) + (1 if q.distinct else 0)
    for p in q.projs:
        n += len(p.cols) + sum(size(s) for s in p.subqs)
    for _, s in q.frm:
        n += 1 + (size(s.q) + (1 if s.collist else 0) if isinstance(s, S) else 0)
    return n


def minimise(case, kind, pres, deadline):
    """greedy delta debugging on the IR: keep any smaller query on which the oracle still reports `kind` for `pres`"""
    cur = case
    improved = True
    while improved and time.time() < deadline:
        improved = False
        for q2 in sorted(shrink_candidates(cur.q), key=size):
            if time.time() > deadline:
                break
            try:
                c2 = Case(q2, case.path, case.dialect, case.style, case.nameforms)
                v2, _ = oracle(c2, only=None if kind == "exception" else {pres})
            except Exception:  # noqa
                continue
            hit = [v for v in v2 if v[0] == kind and v[2].get("pres") == pres]
            if hit and size(q2) < size(cur.q):
                cur = c2
                improved = True
                break
    v, _ = oracle(cur, only=None if kind == "exception" else {pres})
    hit = [x for x in v if x[0] == kind and x[2].get("pres") == pres]
    return cur, (hit[0] if hit else None)


def report(chk, case, v, deadline):
    kind, col, d = v
    small, hit = minimise(case, kind, d["pres"], deadline)
    if hit is None:
        small, hit = case, v
    kind, col, d = hit
    key = f"{kind}|{d['pres']}|" + "+".join(sorted(small.feats))
    what = {
        "missing": "a base column that syntactically flows into the output column is not among the lineage leaves",
        "extra": "the lineage leaves contain a base column that does not flow into the output column",
        "wrong": "lineage leaves differ from the syntactic flow (missing and extra)",
        "exception": "lineage() raises in this presentation while an equivalent presentation of the same query answers",
        "unresolved-outer": "the outer column of a correlated scalar subquery ends in a Placeholder leaf instead of its base column",
        "columns": "lineage(None) output columns differ from the query's output columns",
        "all-vs-one": "lineage(None) (shared cache) and lineage(column) disagree",
    }[kind]
    chk.report_violation(key, f"{what}: {d['sql'][:200]} column={col} got={d.get('got') or d.get('one')} expected={d.get('expected')}",
                         replay_of(small, kind, col, d), context={"presentation": d["pres"], "dialect": str(small.dialect)})


# ------------------------------------------------------------------------------------------ correspond
def correspond(chk: Check, cases):
    reqs, meta = [], []
    unsupported = 0
    for case in cases:
        for pres, (sql, sources) in case.presentations().items():
            try:
                m = to_model(sql, sources, case.schema, case.dialect)
            except Exception as e:  # noqa
                chk.count("model:qualify-raises")
                continue
            if m is None:
                unsupported += 1
                chk.count("model:unsupported")
                continue
            req, root, idx, expression = m
            try:
                req["cte"], real_cte = cte_visibility(root, idx)
            except Exception:  # noqa
                req["cte"], real_cte = [], []
            req["_real_cte"] = real_cte
            try:
                real_all, entries = real_cache(root, idx, expression, case.dialect)
            except Exception as e:  # noqa
                real_all, entries = ("exc", f"{type(e).__name__}: {e}"), None
            real_cte = req.pop("_real_cte")
            reqs.append(json.dumps(req))
            req["_real_cte"] = real_cte
            meta.append((case, pres, sql, sources, req, real_all, entries))
            if any(x["k"] == "wrap" for x in req["scopes"]):
                chk.count("model:wrap-branch-cases")
            # (a source body that mentions a CTE of the MAIN query is not closed: qualified on its own it sees a table)
            if pres == "src" and sources and not (case.feats & {"collist", "ref-collist", "cte-ref"}) and not isinstance(real_all, tuple):
                # the same presentation WITHOUT the real exp.expand: the model expands (Model.expandQ)
                try:
                    ureq = to_model_unexpanded(sql, sources, case.schema, case.path, case.dialect)
                except Exception as e:  # noqa
                    ureq = None
                    chk.count("model:unexpanded-qualify-raises")
                if ureq is None:
                    chk.count("model:unexpanded-unsupported")
                else:
                    if ureq["implicit"] or any(d_["implicit"] for d_ in ureq["defs"]):
                        chk.count("model:expand-unaliased-reference-cases")
                    reqs.append(json.dumps(ureq))
                    meta.append((case, "src-unexpanded", sql, sources, ureq, real_all, entries))
    if not reqs:
        return []
    outs = chk.driver("C17", reqs)
    hints = []
    for (case, pres, sql, sources, req, real_all, entries), line in zip(meta, outs):
        chk.corr_cases += 1
        if line.startswith("bad-request"):
            raise HarnessError(f"C17 driver rejected a request: {line}: {json.dumps(req)[:300]}")
        o = json.loads(line)
        cols = req["cols"]
        if pres != "src-unexpanded" and req.get("cte"):
            chk.count("model:cte-visibility-cases")
            if any(any(x for x in e_["sibs"]) for e_ in req["cte"]):
                chk.count("model:cte-visibility-nested-with-cases")
            if o.get("cte") != req["_real_cte"]:
                chk.correspondence_broken("CTE visibility: what each child scope resolves a CTE name to (real build_scope vs model cteVisible)",
                                          {"sql": sql, "sources": sources, "entries": req["cte"], "real": req["_real_cte"], "model": o.get("cte")})
                hints.append(case)
        if pres == "src-unexpanded":
            chk.count("model:expand-cases")
            for a in ("inl", "all", "unc"):
                if [canon_leaves(x) for x in o[a]] != [canon_leaves(x) for x in o["one"]]:
                    chk.correspondence_broken(f"model expand: {a} differs from the cached per-column run", {"sql": sql, "sources": sources})
            model = {c: canon_leaves(l) for c, l in zip(cols, o["one"])}
            real = {c: sorted({tuple(x) for x in l}) for c, l in real_all.items()}
            if real != model:
                chk.correspondence_broken("sources=: real expand+qualify+to_node vs model expandQ+toNode on the un-expanded pieces",
                                          {"sql": sql, "sources": sources, "dialect": case.dialect, "real": real, "model": model})
                hints.append(case)
            elif entries is not None:
                # same cache contents up to the numbering of the scopes (the copies are laid out in another order)
                def noidx(es):
                    return canon_entries([dict(e, scope=0) for e in es])
                if noidx(entries) != noidx(o["cache"]):
                    r, m_ = noidx(entries), noidx(o["cache"])
                    chk.correspondence_broken("sources=: cache contents (modulo scope numbering) real expand vs model expandQ",
                                              {"sql": sql, "sources": sources, "only_real": [x for x in r if x not in m_][:4],
                                               "only_model": [x for x in m_ if x not in r][:4]})
            continue
        # the model's four renderings agree with each other (theorems, re-checked on data)
        for a in ("unc", "flow", "all"):
            if [canon_leaves(x) for x in o[a]] != [canon_leaves(x) for x in o["one"]]:
                chk.correspondence_broken(f"model: {a} differs from per-column cached run", {"sql": sql, "one": o["one"], a: o[a]})
        model = {c: canon_leaves(l) for c, l in zip(cols, o["one"])}
        if isinstance(real_all, tuple):
            # the real run aborts at the first failing column; the model marks each failing column
            if not any(v == "error" for v in model.values()):
                chk.correspondence_broken("real lineage(scope=…) raises, model answers", {"sql": sql, "sources": sources, "real": real_all[1]})
                hints.append(case)
            continue
        real = {c: sorted({tuple(x) for x in l}) for c, l in real_all.items()}
        if real != model:
            chk.correspondence_broken("leaves: real to_node vs model", {"sql": sql, "sources": sources, "dialect": case.dialect,
                                                                        "real": real, "model": model})
            hints.append(case)
            continue
        if entries is None:
            chk.correspondence_broken("real _cache keys no longer have 5 components", {"sql": sql})
            continue
        if canon_entries(entries) != canon_entries(o["cache"]):
            r, m_ = canon_entries(entries), canon_entries(o["cache"])
            chk.correspondence_broken("cache contents: real _cache vs model cache (keys, node names, leaves per entry)",
                                      {"sql": sql, "sources": sources, "only_real": [x for x in r if x not in m_][:4],
                                       "only_model": [x for x in m_ if x not in r][:4]})
            hints.append(case)
            continue
        # model vs ground truth (lower-cased: dialect normalisation)
        truth = {n.lower(): t for n, t in zip(case.names, case.truth)}
        low = {c.lower(): sorted({(a.lower(), b.lower()) for a, b in l}) if l != "error" else l for c, l in model.items()}
        if low != {k: [tuple(x) for x in v] for k, v in truth.items()} and not (case.feats & set(KNOWN_FEATS)):
            chk.count("model-vs-truth:differs")
            hints.append(case)
    chk.cov["model_unsupported"] = unsupported
    return hints


# ------------------------------------------------------------------------------------------ run
def gen_case(rng, max_depth):
    if rng.random() < 0.1:
        # nested WITH shadowing an outer CTE / a base table between sibling scopes (unqualified names: flat schema)
        return Case(gen_nested_with(rng), "", rng.choice(DIALECTS + [None, None]), rng.choice([0, 0, 1, 8]))
    depth = rng.choice(list(range(1, max_depth + 1)))
    q = gen_query(rng, depth)
    path = rng.choice(["", "", "db.", "cat.db."])
    dialect = rng.choice(DIALECTS + [None, None])
    style = rng.choice([0, 0, 1, 2, 3, 6, 7, 7])
    if rng.random() < 0.07:
        style |= 8  # parenthesised root query: the Subquery-wrapper branch of to_node
    nameforms = ()
    if rng.random() < 0.55:
        # how sources= keys / CTE names are spelled: quoted, case-altering, needing quotes, qualified
        nameforms = tuple(rng.choice([0, 1, 1, 1, 2, 2, 3, 4, 5, 6, 7, 8, 9, 10]) for _ in range(5))
        if rng.random() < 0.3:
            # a cluster of qualified sources sharing their last name part (and the base table `orders`)
            nameforms = tuple(rng.choice([9, 9, 10, 7]) for _ in range(5))
    return Case(q, path, dialect, style, nameforms)


def switch_templates():
    """small queries over NAMED sources (plain lower-case and unquoted mixed-case names) for the settings-switch check"""
    inner = Sel([P("expr", "x", [("t", "a")]), P("expr", "y", [("t", "b")])], [("t", T("t"))])
    q1 = Sel([P("expr", "total", [("o", "x"), ("o", "y")])], [("o", S(inner))])
    mid = Sel([P("expr", "x", [("w", "x")], bare=True)], [("w", S(inner))])
    q2 = Sel([P("expr", "k", [("p", "x"), ("q", "y")])], [("p", S(mid)), ("q", S(inner))])  # a source using a source
    q3 = Sel([P("expr", "k", [("p", "x")])], [("p", S(inner, unaliased=True))], bare=True)   # un-aliased reference
    return [(q1, (0,)), (q1, (6,)), (q2, (0, 6)), (q2, (6, 0)), (q3, (0,))]


def corpus_cases():
    """witness templates, run first"""
    t = T("t")
    inner = Sel([P("expr", "a", [("t", "a")], bare=True), P("expr", "b", [("t", "b")], bare=True)], [("t", t)])
    out = []
    # the same sub-query under two aliases (a CTE referenced twice)
    out.append(Sel([P("expr", "x", [("p", "a"), ("q", "b")])], [("p", S(inner)), ("q", S(inner))]))
    # star over a union under a derived table
    un = Uni("UNION ALL", Sel([P("expr", "a", [("t", "a")], bare=True), P("expr", "b", [("t", "b")], bare=True)], [("t", T("t"))]),
             Sel([P("expr", "d", [("u", "d")], bare=True), P("expr", "a", [("u", "a")], bare=True)], [("u", T("u"))]))
    out.append(Sel([P("star")], [("d", S(un))]))
    # two scalar subqueries projecting the same column name
    s1 = Sel([P("expr", "a", [("t", "a")], bare=True)], [("t", T("t"))])
    s2 = Sel([P("expr", "a", [("u", "a")], bare=True)], [("u", T("u"))])
    out.append(Sel([P("expr", "a", [], [s1, s2]), P("expr", "y", [("v", "e")])], [("v", T("v"))]))
    # same column names at two nesting levels + column-list alias
    out.append(Sel([P("expr", "a", [("d", "x")]), P("expr", "b", [("d", "y")])], [("d", S(inner, ["x", "y"]))]))
    # union of unions under star, nested
    un2 = Uni("UNION", un, Sel([P("expr", "e", [("v", "e")], bare=True), P("expr", "f", [("v", "f")], bare=True)], [("v", T("v"))]))
    out.append(Sel([P("qstar", alias="w"), P("expr", "z", [("w", "a"), ("w", "b")])], [("w", S(un2))]))
    # --- unaliased, qualified sources sharing their last name part (nameforms 9/10: stg.orders, mart.orders, …)
    def tab(cols, base):
        return Sel([P("expr", c, [(base, bc)], bare=(c == bc)) for c, bc in cols], [(base, T(base))])

    src_a = tab([("a", "a"), ("b", "b")], "t")   # -> stg.orders
    src_d = tab([("d", "d")], "u")               # -> mart.orders
    # side by side in one FROM, no aliases, bare columns
    q1 = Sel([P("expr", "x", [("p", "a"), ("q", "d")])], [("p", S(src_a, unaliased=True)), ("q", S(src_d, unaliased=True))], bare=True)
    # a source next to the base table `orders`
    q2 = Sel([P("expr", "x", [("p", "b"), ("orders", "h")])], [("p", S(src_a, unaliased=True)), ("orders", T("orders"))], bare=True)
    # correlated: the inner FROM is one source, the outer FROM another one with the same last part; the inner
    # expression uses a column of the OUTER relation
    inner = Sel([P("expr", "k", [("p", "a")], outer=[("q", "d")])], [("p", S(src_a, unaliased=True))], bare=True)
    q3 = Sel([P("expr", "total", [], [inner])], [("q", S(src_d, unaliased=True))], bare=True)
    inner4 = Sel([P("expr", "k", [("p", "a")], outer=[("orders", "h")])], [("p", S(src_a, unaliased=True))], bare=True)
    q4 = Sel([P("expr", "total", [("orders", "i")], [inner4])], [("orders", T("orders"))], bare=True)
    # --- nested WITH shadowing an outer CTE / a base table: a later sibling must still see the outer meaning
    import random as _random

    for shape, shadow in (("derived", "cte"), ("derived", "table"), ("scalar", "cte"), ("cte-body", "cte"), ("earlier-sibling", "table")):
        out.append(gen_nested_with(_random.Random(shape + shadow), shape, shadow))
    for q_, nf in ((q1, (9, 9, 9)), (q1, (10, 10, 10)), (q2, (9, 9)), (q3, (9, 9, 9)), (q4, (10, 9))):
        q_ = Sel(q_.projs, q_.frm, q_.where, q_.distinct, q_.bare)
        q_.nameforms = nf
        out.append(q_)
    return out


def run(chk: Check) -> None:
    chk.trusted.append(
        "C17: hand-written Lean model of sqlglot.lineage.to_node over the flattened scopes of the qualified query "
        "(Model/Lineage.lean); the cache-key components are re-extracted from the source; qualification, build_scope and "
        "exp.expand are the real code (their output is the model's input); the IR generator's ground-truth flow and the "
        "scope-to-JSON converter in vf/props/c17.py"
    )
    chk.assumptions += [
        "queries use only: projections of column sums/literals, CROSS JOINs of base tables / derived tables / CTEs, set operations, "
        "uncorrelated scalar subqueries, stars expandable from the schema; no pivots, UDTFs, correlated subqueries",
        "leaf identity = (catalog.db.table of the leaf's exp.Table, last part of the leaf name), compared case-insensitively; "
        "leaves are compared as sets (the code iterates a Python set of columns)",
        "ground truth is SYNTACTIC flow: a column used only in WHERE/JOIN does not flow",
    ]
    import logging

    logging.getLogger("sqlglot").setLevel(logging.ERROR)
    chk.write_generated(translate(chk))
    chk.prove(MODULES, "Properties.C17", THEOREMS)

    rng = chk.rng
    # ---- cases
    ncorr = chk.pick(140, 900)
    cases = []
    for q in corpus_cases():
        for d in (None, "snowflake"):
            # the qualified-name templates run over a depth-2 schema so that the un-expanded tie can place their keys
            cases.append(Case(q, "db." if getattr(q, "nameforms", ()) else "", d, 0, getattr(q, "nameforms", ())))
    ncorpus = len(cases)
    while len(cases) < ncorr:
        try:
            cases.append(gen_case(rng, 3))
        except (ValueError, IndexError):
            continue
    t0 = time.time()
    hints = correspond(chk, cases)
    chk.cov["correspond_s"] = round(time.time() - t0, 1)

    # ---- search
    budget = chk.pick(12, 120) * (3 if chk.broken else 1)
    deadline = time.time() + budget
    min_budget, min_spent = 0.4 * budget, 0.0
    n = 0
    seen_keys = set()
    queue = list(hints) + [c for c in cases[:ncorpus]]
    # ---- settings switch: one dialect class, several settings, same source-name strings, one process
    t_sw = time.time()
    classes = SWITCH_CLASSES if not chk.quick else [SWITCH_CLASSES[(chk.seed + i) % len(SWITCH_CLASSES)] for i in (0, 1)]
    for cls in classes:
        orders = [[cls, cls + SWITCH_SETTINGS[1], cls + SWITCH_SETTINGS[2]], [cls + SWITCH_SETTINGS[1], cls],
                  [cls + SWITCH_SETTINGS[3], cls + SWITCH_SETTINGS[4]]]
        for q_, nf in switch_templates():
            for specs in orders:
                settings_switch(chk, q_, "", 0, nf, specs)
    chk.cov["settings_switch_s"] = round(time.time() - t_sw, 1)
    while time.time() < deadline:
        if queue:
            case = queue.pop(0)
        else:
            try:
                case = gen_case(rng, 4)
            except (ValueError, IndexError):
                continue
        n += 1
        try:
            viol, per = oracle(case)
        except RecursionError:
            chk.count("oracle:recursion")
            continue
        for f in case.feats:
            chk.count("feature:" + f)
        chk.count("dialect:" + str(case.dialect))
        chk.count("ncols:%d" % min(len(case.names), 8))
        chk.case((per["inline"][0], case.dialect, case.path), nontrivial=any(case.truth),
                 sample={"sql": per["inline"][0], "dialect": case.dialect, "columns": case.names,
                         "flow": case.truth} if n % 17 == 1 else None)
        if ("sub" in case.feats and not (case.feats & {"collist", "ref-collist", "star-order", "paren-root", "correlated", "cte-ref"})
                and not viol and rng.random() < 0.15):
            cls = rng.choice(SWITCH_CLASSES)
            specs = [cls + x for x in rng.sample(SWITCH_SETTINGS, rng.choice([2, 3]))]
            settings_switch(chk, case.q, case.path, 0, tuple(rng.choice([0, 0, 6]) for _ in range(4)), specs)
        for v in viol:
            sig = (v[0], v[2].get("pres"), tuple(sorted(case.feats & {"ref-collist", "collist", "paren-root"})))
            if sig in seen_keys or len(chk.violations) >= 10:
                continue
            seen_keys.add(sig)
            certain = (v[2].get("pres") == "src" and case.feats & {"collist", "ref-collist"}) or (
                v[2].get("pres") == "cte" and "ref-collist" in case.feats) or "paren-root" in case.feats
            # a column-list alias under sources= / on a CTE reference fails for the known reason whatever else the
            # query contains: nothing to minimise
            # minimisation may use at most ~40% of the search budget, so that one large failing case does not
            # starve the generator
            left = min_budget - min_spent
            t1 = time.time()
            report(chk, case, v, 0 if (certain or left <= 0) else min(deadline + 5, t1 + min(chk.pick(4, 20), left)))
            min_spent += time.time() - t1
    chk.search_info = {"queries": n, "budget_s": budget, "oracle": "real lineage leaves == recorded syntactic flow; "
                       "inline/CTE/sources= presentations, alias renaming and lineage(None) agree",
                       "dialects": [str(d) for d in DIALECTS]}


def replay(path: str) -> int:
    with open(path) as f:
        rec = json.load(f)
    rp = rec.get("replay")
    if not isinstance(rp, dict) or ("sql" not in rp and "steps" not in rp):
        print("replay: no concrete input stored (model/proof tie broke); see 'no_longer_checks'")
        return 1 if rec.get("no_longer_checks") else 0
    bad, text = replay_switch(rp) if rp.get("kind") == "settings-switch" else check_replay(rp)
    print(("replay: VIOLATES: " if bad else "replay: holds: ") + text)
    return 1 if bad else 0
