"""C04 — Quoting of strings, identifiers and comments is lossless and inescapable (DESIGN.md §4 C04).

translate : for every registered dialect (33 + base) the tables the TOKENIZER CORE(S) that actually run hold
            (quotes, identifiers, escapes, follow chars, unescaped sequences, comments) and the tables of the GENERATOR
            OBJECT that actually renders a literal / identifier / comment (they differ for Athena), captured by observing
            one generate + tokenize call; plus the shape of sanitize_comment / maybe_comment / identifier_sql / escape_str (ast).
prove     : Properties/C04.lean — round trip `_extract_string ∘ escape_str = id` for every well-formed configuration
            (unbounded in the value), fast path = slow path, comment sanitising; per-dialect well-formedness decided
            on the generated tables; not-well-formed witnesses for the two known defective pairings.
correspond: the Lean model vs the real `_extract_string` / `escape_str` / `identifier_sql` / `sanitize_comment` /
            `_scan_comment` on adversarial strings, using the generated tables on the Lean side and live objects on the
            Python side.
search    : the property's own oracle on the real code (exactly one STRING / IDENTIFIER token with the same text; a
            comment leaves the surrounding tokens unchanged), through Literal.string / to_identifier / convert / column /
            select().where() / add_comments with pretty / identify options.
"""

from __future__ import annotations

import ast
import itertools
import json
import os
import time

from vf.core import Check, REPO, HarnessError, lean_str, lean_bool

MODULES = ["Model.Str", "Model.StrLex", "Model.StrDerive", "Proofs.Str", "Proofs.StrDerive", "Proofs.StrFast", "Proofs.Comment", "Proofs.StrLex", "Generated.C04", "Properties.C04"]
P = "SqlglotModel.Properties.C04."
THEOREMS = [P + n for n in [
    "string_roundtrip",
    "fast_eq_slow",
    "extract_roundtrip",
    "alnum_skip_sound",
    "identifier_roundtrip",
    "sanitize_no_marker",
    "comment_scan_exact",
    "literal_single_token",
    "identifier_single_token",
    "literal_boundary",
    "identifier_boundary",
    "boundary_compose",
    "opaque_boundary",
    "comment_transparent",
    "maybe_comment_transparent",
    "raw_roundtrip",
    "byte_roundtrip_partial",
    "byte_backslash_counterexample",
    "general_extract_specialises",
    "generated_dispatch",
    "generated_identifier_sites",
    "generated_quoting_overrides",
    "derived_inverse_pairs",
    "derived_printable_filter",
    "derived_default_kept",
    "derived_wf_inverse_condition",
    "generated_escape_derivation",
    "generated_cfg_tables_derived",
    "comment_read_back",
    "comment_open_marker_needs_breaking",
    "raw_literal_read",
    "raw_read_needs_premise",
    "foreign_delimiter_preserved",
    "generated_identifier_scan_shape",
    "generated_wf_byte_raw",
    "generated_wf",
    "generated_wf_fast",
    "generated_comment_tables",
    "generated_shapes",
    "athena_string_not_wf_witness",
    "clickhouse_identifier_not_wf_witness",
    "roundtrip_needs_wf",
]]

SENTINEL = "__SQLGLOT__LB__"


# ------------------------------------------------------------------------------------------ live objects
def sg():
    import logging
    import sqlglot
    logging.getLogger("sqlglot").setLevel(logging.CRITICAL)
    from sqlglot import exp
    from sqlglot.dialects.dialect import Dialect, Dialects
    from sqlglot.tokens import TokenType
    from sqlglot.errors import TokenError
    from sqlglot import generator, tokenizer_core

    return sqlglot, exp, Dialect, Dialects, TokenType, TokenError, generator, tokenizer_core


def dialect_names() -> list:
    """the `Dialects` enum ∪ sqlglot.dialects.DIALECT_MODULE_NAMES (singlestore is only in the latter)"""
    *_, Dialects, _, _, _, _ = sg()
    names = [d.value for d in Dialects]
    try:
        import sqlglot.dialects as dmod
        for n in sorted(getattr(dmod, "DIALECT_MODULE_NAMES", [])):
            if n not in names and n != "dialect":
                names.append(n)
    except Exception:  # noqa
        pass
    return names


class Capture:
    """Record the generator object(s) that render and the tokenizer core(s) that scan, for one dialect."""

    def __init__(self):
        _, _, _, _, _, _, generator, tokenizer_core = sg()
        self.G = generator.Generator
        self.K = tokenizer_core.TokenizerCore
        self.gens: dict[str, list] = {"escape_str": [], "identifier_sql": [], "sanitize_comment": []}
        self.cores: list = []

    def __enter__(self):
        self._orig = {}
        for name in self.gens:
            orig = getattr(self.G, name)
            self._orig[name] = orig

            def wrap(orig=orig, name=name):
                def f(this, *a, **k):
                    self.gens[name].append(this)
                    return orig(this, *a, **k)
                return f
            setattr(self.G, name, wrap())
        orig_tok = self.K.tokenize
        self._orig_tok = orig_tok

        def tok(this, sql):
            if not any(c is this for c in self.cores):
                self.cores.append(this)
            return orig_tok(this, sql)
        self.K.tokenize = tok
        return self

    def __exit__(self, *exc):
        for name, orig in self._orig.items():
            setattr(self.G, name, orig)
        self.K.tokenize = self._orig_tok
        return False


_LIVE_CACHE: dict = {}


def live(name: str) -> dict:
    """The live objects for one dialect: generator objects for str/ident/comment and the tokenizer cores."""
    if name in _LIVE_CACHE:
        return _LIVE_CACHE[name]
    _, exp, Dialect, *_ = sg()
    dia = Dialect.get_or_raise(name or None)
    out: dict = {"dialect": dia}
    with Capture() as cap:
        try:
            s1 = dia.generate(exp.Literal.string("x"))
            s2 = dia.generate(exp.to_identifier("x", quoted=True))
            e = exp.select(exp.Literal.number(1))
            e.expressions[0].add_comments(["c"])
            s3 = dia.generate(e)
        except Exception as ex:  # noqa
            raise HarnessError(f"C04 translator: generating probe expressions failed for {name!r}: {ex!r}")
        gen_s, gen_i, gen_c = cap.gens["escape_str"][-1:], cap.gens["identifier_sql"][-1:], cap.gens["sanitize_comment"][-1:]
        cores = {}
        for kind, s in (("str", s1), ("id", s2), ("com", s3)):
            cap.cores = []
            try:
                dia.tokenize(s)
            except Exception:  # noqa
                pass
            cores[kind] = list(cap.cores)
    out.update(gen_str=gen_s[0] if gen_s else None, gen_id=gen_i[0] if gen_i else None, gen_com=gen_c[0] if gen_c else None,
               cores=cores, probe=(s1, s2, s3))
    _LIVE_CACHE[name] = out
    return out


# ------------------------------------------------------------------------------------------ translate
def ch(c: str) -> str:
    return "Char.ofNat %d" % ord(c)


def chars(cs) -> str:
    return "[" + ", ".join(ch(c) for c in cs) + "]"


def one(s, n=1):
    return isinstance(s, str) and len(s) == n


class Shape(Exception):
    pass


def tok_fields(core, q: str, escapes) -> dict:
    """the tokenizer-side tables of one `_extract_string` instantiation"""
    for e in escapes:
        if not one(e):
            raise Shape(f"multi-character escape {e!r}")
    unesc = []
    for k, v in core.unescaped_sequences.items():
        if len(k) != 2:
            continue  # can never equal `self._char + self._peek`
        if not one(v):
            raise Shape(f"unescaped sequence {k!r} maps to {v!r} (not one character)")
        unesc.append((k[0], k[1], v))
    return {
        "q": q,
        "escapes": sorted(escapes),
        "quotes": sorted(k for k in core.quotes if len(k) == 1),
        "follow": sorted(core.escape_follow_chars),
        "unesc": sorted(unesc),
    }


def gen_fields(gen, kind: str) -> dict:
    """the generator-side tables; kind in {"str", "id", "byte"}"""
    d = gen.dialect
    if kind == "str":
        g_start, g_end, g_escd = d.QUOTE_START, d.QUOTE_END, gen._escaped_quote_end
        supports = bool(d.STRINGS_SUPPORT_ESCAPED_SEQUENCES)
    elif kind == "byte":
        g_start, g_end, g_escd = d.BYTE_START, d.BYTE_END, gen._escaped_byte_quote_end
        supports = bool(d.BYTE_STRINGS_SUPPORT_ESCAPED_SEQUENCES)
    else:
        g_start, g_end, g_escd = gen._identifier_start, gen._identifier_end, gen._escaped_identifier_end
        supports = False
    if not (isinstance(g_start, str) and 1 <= len(g_start) <= 3 and one(g_end) and one(g_escd, 2)):
        raise Shape(f"{kind}: generator delimiters are not (1-3 chars, 1 char, 2 chars): {g_start!r} {g_end!r} {g_escd!r}")
    if kind != "byte" and not one(g_start):
        raise Shape(f"{kind}: generator start delimiter {g_start!r} is not one character")
    seq = []
    if kind != "id":
        for k, v in d.ESCAPED_SEQUENCES.items():
            if not one(k) or not one(v, 2):
                raise Shape(f"ESCAPED_SEQUENCES entry {k!r}: {v!r} is not 1 char -> 2 chars")
            seq.append((k, v[0], v[1]))
    return {
        "gq": g_end,
        "esc0": g_escd[0],
        "esc1": g_escd[1],
        "escSeq": sorted(seq),
        "supports": supports,
        "genBsEsc": "\\" in d.tokenizer_class.STRING_ESCAPES,
        "start": g_start,
    }


def str_cfg(core, gen, kind: str) -> tuple:
    """(startOk, cfg-dict) for one (tokenizer core, generator object) pairing; kind in {"str", "id", "byte"}."""
    g = gen_fields(gen, kind)
    if kind == "str":
        t_end, escapes = core.quotes.get(g["start"]), set(core.string_escapes)
    elif kind == "byte":
        fs = core.format_strings.get(g["start"])
        t_end = fs[0] if fs and fs[1].name == "BYTE_STRING" else None
        escapes = set(core.byte_string_escapes)
    else:
        t_end, escapes = core.identifiers.get(g["start"]), None
    start_ok = one(t_end)
    q = t_end if start_ok else g["gq"]
    if kind == "id":
        escapes = set(core.identifier_escapes) | {q}
    cfg = dict(tok_fields(core, q, escapes), **g)
    return start_ok, cfg


def cfg_lean(cfg: dict) -> str:
    unesc = "[" + ", ".join(f"(({ch(a)}, {ch(b)}), {ch(v)})" for a, b, v in cfg["unesc"]) + "]"
    seq = "[" + ", ".join(f"({ch(k)}, ({ch(a)}, {ch(b)}))" for k, a, b in cfg["escSeq"]) + "]"
    return ("{ q := %s, escapes := %s, quotes := %s, follow := %s, unesc := %s, gq := %s, esc0 := %s, esc1 := %s, "
            "escSeq := %s, supports := %s, genBsEsc := %s }" % (
                ch(cfg["q"]), chars(cfg["escapes"]), chars(cfg["quotes"]), chars(cfg["follow"]),
                unesc, ch(cfg["gq"]), ch(cfg["esc0"]), ch(cfg["esc1"]), seq, lean_bool(cfg["supports"]),
                lean_bool(cfg["genBsEsc"])))


def trie_keys(trie, prefix=""):
    for k, v in trie.items():
        if k == 0:
            yield prefix
        else:
            yield from trie_keys(v, prefix + k)


KIND_OF = {"NATIONAL_STRING": "national", "BYTE_STRING": "byte", "RAW_STRING": "raw", "UNICODE_STRING": "unicode",
           "HEX_STRING": "hex", "BIT_STRING": "bit", "HEREDOC_STRING": "heredoc"}


def lex_cfg(core, gen_s, gen_i, byte_cfg) -> dict:
    """the dispatch tables of one tokenizer core (Model/StrLex.lean: LexCfg), cfgs as dicts"""
    gs = gen_fields(gen_s, "str")
    gi = gen_fields(gen_i, "id")
    idents = []
    for st, en in sorted(core.identifiers.items()):
        if not (one(st) and one(en)):
            raise Shape(f"identifier delimiters {st!r} {en!r} are not single characters")
        idents.append((st, dict(tok_fields(core, en, set(core.identifier_escapes) | {en}), **gi)))
    starts = []
    for st, en in sorted(core.quotes.items()):
        if not en:
            raise Shape(f"quote {st!r} has an empty end")
        starts.append((st, "str", en, False, dict(tok_fields(core, en[0], set(core.string_escapes)), **gs)))
    for st, (en, ty) in sorted(core.format_strings.items()):
        kind = KIND_OF.get(ty.name)
        if kind is None:
            raise Shape(f"format string {st!r} has unknown token type {ty.name}")
        if kind == "byte":
            base = byte_cfg if byte_cfg is not None else gs
            cfg = dict(tok_fields(core, en[0] if en else "'", set(core.byte_string_escapes)),
                       **{k: base[k] for k in ("gq", "esc0", "esc1", "escSeq", "supports", "genBsEsc", "start")})
        else:
            cfg = dict(tok_fields(core, en[0] if en else "'", set(core.string_escapes)), **gs)
        if not en:
            kind = "hex" if kind not in ("hex", "bit") else kind  # `0x` style: handled by _scan_number, never by _scan_string
        starts.append((st, kind, en or "?", kind == "raw", cfg))
    allkeys = sorted(set(trie_keys(core.keyword_trie)))
    R = {k.upper() for k in list(core.quotes) + list(core.format_strings) + list(core.comments)}
    keys = [k for k in allkeys if any(k.startswith(r) for r in R)]
    for k in keys:
        if any(c.isspace() for c in k):
            raise Shape(f"trie key {k!r} extending a quote/comment start contains whitespace")
    singles = sorted(k for k in core.single_tokens if len(k) == 1)
    if any(len(k) != 1 for k in core.single_tokens):
        raise Shape("a SINGLE_TOKENS key is not one character")
    return {
        "identifiers": idents,
        "keys": keys,
        "strStarts": starts,
        "comments": sorted((k, v or "") for k, v in core.comments.items()),
        "nested": bool(core.nested_comments),
        "rawEsc": bool(core.string_escapes_allowed_in_raw_strings),
        "singles": singles,
        "varSingles": sorted(core.var_single_tokens),
    }


def national_start(dia, gen_s) -> str:
    """what `exp.National(v).sql()` writes in front of the escaped value ("" when it is not prefix + quoted value)"""
    _, exp, *_ = sg()
    try:
        out = dia.generate(exp.National(this="x"))
    except Exception:  # noqa
        return ""
    qe = gen_s.dialect.QUOTE_END
    if out.endswith("x" + qe) and 1 <= len(out) - 2 <= 3:
        return out[:-2]
    return ""


def ast_shapes(chk: Check) -> dict:
    """Structural facts of the generator source that the model hard-codes."""
    src = open(os.path.join(REPO, "sqlglot", "generator.py"), encoding="utf-8").read()
    tree = ast.parse(src)
    gen = next((n for n in tree.body if isinstance(n, ast.ClassDef) and n.name == "Generator"), None)
    fns = {n.name: n for n in (gen.body if gen else []) if isinstance(n, ast.FunctionDef)}
    out = {"replaces": [], "pads": 0, "open": "", "close": "", "identReplace": False, "escReplaceLast": False,
           "commentSanitized": False, "escIdDoubles": False}

    def const(n):
        return n.value if isinstance(n, ast.Constant) and isinstance(n.value, str) else None

    f = fns.get("sanitize_comment")
    if f:
        # `comment = comment.replace(A, B).replace(C, D)`: innermost call first
        for node in ast.walk(f):
            if isinstance(node, ast.Assign) and isinstance(node.value, ast.Call):
                chain = []
                cur = node.value
                while isinstance(cur, ast.Call) and isinstance(cur.func, ast.Attribute) and cur.func.attr == "replace":
                    if len(cur.args) == 2 and const(cur.args[0]) is not None and const(cur.args[1]) is not None:
                        chain.append((const(cur.args[0]), const(cur.args[1])))
                    else:
                        chain.append(("?", "?"))
                    cur = cur.func.value
                if chain:
                    out["replaces"] += list(reversed(chain))
            # the two pads: `" " + comment if comment[0].strip() else comment`, `comment + " " if comment[-1].strip() else comment`
            if isinstance(node, ast.IfExp) and isinstance(node.test, ast.Call) and isinstance(node.test.func, ast.Attribute) \
                    and node.test.func.attr == "strip" and isinstance(node.test.func.value, ast.Subscript):
                idx = node.test.func.value.slice
                v = idx.value if isinstance(idx, ast.Constant) else (-idx.operand.value if isinstance(idx, ast.UnaryOp) and isinstance(idx.operand, ast.Constant) else None)
                body = node.body
                if isinstance(body, ast.BinOp) and isinstance(body.op, ast.Add):
                    if v == 0 and const(body.left) == " ":
                        out["pads"] += 1
                    if v == -1 and const(body.right) == " ":
                        out["pads"] += 1
    f = fns.get("maybe_comment")
    if f:
        for node in ast.walk(f):
            if isinstance(node, ast.JoinedStr) and len(node.values) == 3 and const(node.values[0]) and const(node.values[2]) \
                    and isinstance(node.values[1], ast.FormattedValue):
                out["open"], out["close"] = const(node.values[0]), const(node.values[2])
                inner = ast.unparse(node.values[1].value)
                out["commentSanitized"] = inner == "self._replace_line_breaks(self.sanitize_comment(comment))"
    f = fns.get("maybe_comment")
    out["mcPlain"] = False
    out["mcConsts"] = []
    if f:
        consts = set()
        for node in ast.walk(f):
            c = const(node)
            if c is not None:
                consts.add(c)
        if ast.get_docstring(f):
            consts.discard(ast.get_docstring(f, clean=False))
        out["mcConsts"] = sorted(consts)
        rets = [n for n in ast.walk(f) if isinstance(n, ast.Return)]
        out["mcPlain"] = bool(rets) and isinstance(f.body[-1], ast.Return) and \
            ast.unparse(f.body[-1].value).replace('"', "'") == "f'{sql} {' '.join(comments_list)}'"
    f = fns.get("identifier_sql")
    if f:
        for node in ast.walk(f):
            if isinstance(node, ast.Assign) and ast.unparse(node.value) == "text.replace(self._identifier_end, self._escaped_identifier_end)":
                out["identReplace"] = True
    f = fns.get("escape_str")
    if f and isinstance(f.body[-1], ast.Return):
        out["escReplaceLast"] = ast.unparse(f.body[-1].value) == "self._replace_line_breaks(text).replace(delimiter, escaped_delimiter)"
    f = fns.get("__init__")
    if f:
        for node in ast.walk(f):
            if isinstance(node, ast.Assign) and ast.unparse(node.targets[0]) == "self._escaped_identifier_end":
                out["escIdDoubles"] = ast.unparse(node.value) == "self.dialect.IDENTIFIER_END * 2"
    return out


def identifier_sites() -> list:
    """every `Identifier(...)` constructor call in sqlglot/expressions/*.py as "file:function:call" (ast; docstrings ignored)"""
    import glob

    out = []
    for path in sorted(glob.glob(os.path.join(REPO, "sqlglot", "expressions", "*.py"))):
        tree = ast.parse(open(path, encoding="utf-8").read())

        def walk(node, fn):
            for chd in ast.iter_child_nodes(node):
                f2 = fn
                if isinstance(chd, (ast.FunctionDef, ast.AsyncFunctionDef, ast.ClassDef)):
                    f2 = (fn + "." if fn else "") + chd.name
                if isinstance(chd, ast.Call):
                    f = chd.func
                    nm = f.id if isinstance(f, ast.Name) else (f.attr if isinstance(f, ast.Attribute) else None)
                    if nm in ("Identifier", "_Identifier"):
                        out.append(f"{os.path.basename(path)}:{fn}:{ast.unparse(chd)}")
                walk(chd, f2)

        walk(tree, "")
    return sorted(out)


QUOTING_METHODS = {"identifier_sql", "literal_sql", "escape_str", "sanitize_comment", "maybe_comment", "_replace_line_breaks",
                   "national_sql", "rawstring_sql", "bytestring_sql", "unicodestring_sql", "heredoc_sql", "hexstring_sql",
                   "bitstring_sql", "comment_sql"}
QUOTING_NODES = {"Literal", "Identifier", "National", "RawString", "ByteString", "UnicodeString", "Heredoc", "HexString", "BitString"}
DELIM_ATTRS = {"_identifier_start", "_identifier_end", "QUOTE_START", "QUOTE_END", "IDENTIFIER_START", "IDENTIFIER_END",
               "BYTE_START", "BYTE_END", "UNICODE_START", "UNICODE_END", "_escaped_quote_end", "_escaped_identifier_end",
               "_escaped_byte_quote_end"}


def quoting_overrides() -> tuple:
    """(overrides, delimiter sites, TRANSFORMS entries) by ast over sqlglot/generator.py, generators/*.py, dialects/*.py:
    every dialect-generator override of a quoting method ("delegates" when its body is `return super().m(...)`, else a
    hash of its ast), every function that touches a quote / identifier delimiter attribute, every TRANSFORMS entry for a
    literal-like node."""
    import glob
    import hashlib

    root = os.path.join(REPO, "sqlglot")
    files = sorted(glob.glob(os.path.join(root, "generators", "*.py")) + glob.glob(os.path.join(root, "dialects", "*.py")))
    files.append(os.path.join(root, "generator.py"))
    ovr, sites, trf = [], [], []
    for path in files:
        rel = os.path.relpath(path, root)
        tree = ast.parse(open(path, encoding="utf-8").read())

        def walk(node, q):
            for chd in ast.iter_child_nodes(node):
                if isinstance(chd, ast.ClassDef):
                    walk(chd, q + [chd.name])
                elif isinstance(chd, (ast.FunctionDef, ast.AsyncFunctionDef)):
                    nm = ".".join(q + [chd.name])
                    if chd.name in QUOTING_METHODS and rel != "generator.py" and q:
                        body = [b for b in chd.body
                                if not (isinstance(b, ast.Expr) and isinstance(b.value, ast.Constant) and isinstance(b.value.value, str))]
                        pure = len(body) == 1 and isinstance(body[0], ast.Return) and body[0].value is not None \
                            and ast.unparse(body[0].value).startswith(f"super().{chd.name}(")
                        tag = "delegates" if pure else hashlib.sha256(ast.dump(chd).encode()).hexdigest()[:12]
                        ovr.append(f"{rel}:{nm}:{tag}")
                    if {n.attr for n in ast.walk(chd) if isinstance(n, ast.Attribute)} & DELIM_ATTRS:
                        sites.append(f"{rel}:{nm}")
                    walk(chd, q + [chd.name])
                elif isinstance(chd, ast.Assign) and isinstance(chd.value, ast.Dict) and \
                        any(isinstance(tg, ast.Name) and tg.id == "TRANSFORMS" for tg in chd.targets):
                    for k, v in zip(chd.value.keys, chd.value.values):
                        if isinstance(k, ast.Attribute) and k.attr in QUOTING_NODES:
                            trf.append(f"{rel}:{'.'.join(q)}:{k.attr}:{ast.unparse(v)}")
                else:
                    walk(chd, q)

        walk(tree, [])
    return sorted(ovr), sorted(set(sites)), sorted(trf)


def esc_records(chk: Check) -> tuple:
    """class-body inputs of the `_Dialect` metaclass derivation and the derived tables the live classes hold"""
    import inspect
    import importlib

    _, _, Dialect, *_ = sg()
    ddef = importlib.import_module("sqlglot.dialects.dialect")
    dflt = list(ddef.UNESCAPED_SEQUENCES.items())

    def pairs(items, what):
        out = []
        for k, v in items:
            if not (one(k, 2) and one(v)):
                raise Shape(f"{what}: entry {k!r}: {v!r} is not 2 chars -> 1 char")
            out.append((k[0], k[1], v))
        return out

    recs = []
    classes = {}
    for name in dialect_names():
        cls = type(Dialect.get_or_raise(name or None))
        for c in cls.__mro__:
            if isinstance(c, type(Dialect)) and c.__name__ not in classes:
                classes[c.__name__] = c
    for cname, cls in sorted(classes.items()):
        body = None
        try:
            tree = ast.parse(open(inspect.getsourcefile(cls), encoding="utf-8").read())
            mod = importlib.import_module(cls.__module__)
            for node in tree.body:
                if isinstance(node, ast.ClassDef) and node.name == cls.__name__:
                    for st in node.body:
                        tgt = st.targets[0] if isinstance(st, ast.Assign) else (st.target if isinstance(st, ast.AnnAssign) else None)
                        val = getattr(st, "value", None)
                        if isinstance(tgt, ast.Name) and tgt.id == "UNESCAPED_SEQUENCES" and val is not None:
                            body = eval(compile(ast.Expression(val), "<c04>", "eval"), dict(vars(mod)))  # noqa: S307 (repo source)
        except Exception as e:  # noqa
            raise Shape(f"{cname}: cannot read the class body ({e!r})")
        if body is None:
            parents = [c for c in cls.__mro__[1:] if hasattr(c, "UNESCAPED_SEQUENCES")]
            body = dict(parents[0].UNESCAPED_SEQUENCES) if parents else {}
        tk = cls.tokenizer_class
        for e in list(tk.STRING_ESCAPES) + list(tk.BYTE_STRING_ESCAPES):
            if not one(e):
                raise Shape(f"{cname}: multi-character escape {e!r}")
        un = pairs(cls.UNESCAPED_SEQUENCES.items(), cname + ".UNESCAPED_SEQUENCES")
        for v, k in cls.ESCAPED_SEQUENCES.items():
            if not (one(v) and one(k, 2)):
                raise Shape(f"{cname}.ESCAPED_SEQUENCES entry {v!r}: {k!r}")
        es = [(v, k[0], k[1]) for v, k in cls.ESCAPED_SEQUENCES.items()]
        bd = pairs(body.items(), cname + " class-body UNESCAPED_SEQUENCES")
        vals = {x[2] for x in un + bd + pairs(dflt, "default")}
        recs.append({"name": cname, "strEsc": list(tk.STRING_ESCAPES), "byteEsc": list(tk.BYTE_STRING_ESCAPES), "body": bd,
                     "printable": sorted(v for v in vals if v.isprintable()),
                     "supports": bool(cls.STRINGS_SUPPORT_ESCAPED_SEQUENCES), "byteSupports": bool(cls.BYTE_STRINGS_SUPPORT_ESCAPED_SEQUENCES),
                     "unesc": un, "escaped": es, "cls": cls})
    return pairs(dflt, "default"), recs


def seq_lean(items) -> str:
    return "[" + ", ".join(f"(({ch(a)}, {ch(b)}), {ch(v)})" for a, b, v in items) + "]"


def translate(chk: Check) -> str:
    lines = [
        "-- GENERATED by vf/props/c04.py from the live tokenizer cores / generator objects of every dialect and the ast of",
        "-- sqlglot/generator.py. Do not edit.",
        "import SqlglotModel.Model.StrLex",
        "import SqlglotModel.Model.StrDerive",
        "namespace SqlglotModel.Generated.C04",
        "open SqlglotModel.Str",
        "",
    ]
    entries = []
    table: dict = {}
    cfg_names: dict = {}
    cfg_defs: list = []

    def cname(cfg: dict) -> str:
        key = cfg_lean(cfg)
        if key not in cfg_names:
            cfg_names[key] = f"cfg{len(cfg_names)}"
            cfg_defs.append(f"def {cfg_names[key]} : Cfg := {key}")
        return cfg_names[key]

    def lstr(x: str) -> str:
        return chars(x)

    for name in dialect_names():
        L = live(name)
        label = name or "base"
        rec = {"str": [], "id": [], "byte": [], "com": [], "lex": []}
        try:
            for kind, gk in (("str", "gen_str"), ("id", "gen_id")):
                gen = L[gk]
                if gen is None or not L["cores"][kind]:
                    raise Shape(f"{kind}: no generator object / tokenizer core observed")
                for core in L["cores"][kind]:
                    rec[kind].append(str_cfg(core, gen, kind))
            has_byte = bool(L["gen_str"].dialect.BYTE_START)
            for core in L["cores"]["str"]:
                bc = str_cfg(core, L["gen_str"], "byte") if has_byte else None
                if bc is not None:
                    rec["byte"].append(bc)
                rec["lex"].append(lex_cfg(core, L["gen_str"], L["gen_id"], bc[1] if bc else None))
            if L["gen_com"] is None or not L["cores"]["com"]:
                raise Shape("comment: no generator object / tokenizer core observed")
            for core in L["cores"]["com"]:
                rec["com"].append((core.comments.get("/*") == "*/", bool(core.nested_comments)))
            rec["strStart"] = rec["str"][0][1]["start"]
            rec["idStart"] = rec["id"][0][1]["start"]
            rec["natStart"] = national_start(L["dialect"], L["gen_str"])
            rec["byteStart"] = rec["byte"][0][1]["start"] if rec["byte"] else ""
        except Shape as e:
            chk.broken.append({"kind": "translator", "what": f"C04 translator: structure changed ({label}): {e}"})
            continue
        except (AttributeError, TypeError, KeyError) as e:
            chk.broken.append({"kind": "translator", "what": f"C04 translator: structure changed ({label}): {e!r}"})
            continue
        table[label] = rec
        parts = []
        for kind in ("str", "id", "byte"):
            parts.append("[" + ", ".join(f"({lean_bool(ok)}, {cname(cfg)})" for ok, cfg in rec[kind]) + "]")
        com = "[" + ", ".join(f"({lean_bool(a)}, {lean_bool(b)})" for a, b in rec["com"]) + "]"
        lex = []
        for lc in rec["lex"]:
            idents = "[" + ", ".join(f"({ch(st)}, {cname(c)})" for st, c in lc["identifiers"]) + "]"
            keys = "[" + ", ".join(lstr(k) for k in lc["keys"]) + "]"
            starts = "[" + ", ".join(
                f"({lstr(st)}, {{ kind := .{kind}, delim := {lstr(en)}, raw := {lean_bool(raw)}, cfg := {cname(c)} }})"
                for st, kind, en, raw, c in lc["strStarts"]) + "]"
            coms = "[" + ", ".join(f"({lstr(a)}, {lstr(b)})" for a, b in lc["comments"]) + "]"
            lex.append(f"{{\n        identifiers := {idents},\n        keys := {keys},\n        strStarts := {starts},\n        comments := {coms},\n"
                       f"        nested := {lean_bool(lc['nested'])}, rawEsc := {lean_bool(lc['rawEsc'])}, singles := {chars(lc['singles'])}, "
                       f"varSingles := {chars(lc['varSingles'])} }}")
        entries.append(f"  {{ name := {lean_str(label)},\n    strCfgs := {parts[0]},\n    idCfgs := {parts[1]},\n    byteCfgs := {parts[2]},\n"
                       f"    comments := {com},\n    lex := [\n      " + ",\n      ".join(lex) + "],\n"
                       f"    strStart := {lstr(rec['strStart'])}, idStart := {lstr(rec['idStart'])}, natStart := {lstr(rec['natStart'])}, "
                       f"byteStart := {lstr(rec['byteStart'])} }}")
    lines += cfg_defs
    lines.append("")
    lines.append("def dialects : List DialectEntry := [")
    lines.append(",\n".join(entries))
    lines.append("]")
    lines.append("")
    sh = ast_shapes(chk)
    lines.append("def sanitizeReplaces : List (String × String) := [" + ", ".join(f"({lean_str(a)}, {lean_str(b)})" for a, b in sh["replaces"]) + "]")
    lines.append(f"def sanitizePads : Nat := {sh['pads']}")
    lines.append(f"def commentOpen : String := {lean_str(sh['open'])}")
    lines.append(f"def commentClose : String := {lean_str(sh['close'])}")
    lines.append(f"def commentSanitized : Bool := {lean_bool(sh['commentSanitized'])}")
    lines.append(f"def identifierReplaceShape : Bool := {lean_bool(sh['identReplace'])}")
    lines.append(f"def identifierEscapeDoubles : Bool := {lean_bool(sh['escIdDoubles'])}")
    lines.append(f"def escapeStrReplaceLast : Bool := {lean_bool(sh['escReplaceLast'])}")
    lines.append(f"def maybeCommentPlainForm : Bool := {lean_bool(sh['mcPlain'])}")
    lines.append("def maybeCommentConstants : List String := [" + ", ".join(lean_str(c) for c in sh["mcConsts"]) + "]")
    sites = identifier_sites()
    lines.append("-- every Identifier(...) construction in sqlglot/expressions/*.py; anything but to_identifier bypasses the automatic quoting")
    lines.append("def identifierSites : List String := [" + ", ".join(lean_str(x) for x in sites) + "]")
    # the identifier scanner: ast shape + the live escape set of every core vs the declared IDENTIFIER_ESCAPES
    shape = []
    try:
        tc = ast.parse(open(os.path.join(REPO, "sqlglot", "tokenizer_core.py"), encoding="utf-8").read())
        tk = ast.parse(open(os.path.join(REPO, "sqlglot", "tokens.py"), encoding="utf-8").read())
        for node in ast.walk(tc):
            if isinstance(node, ast.FunctionDef) and node.name == "_scan_identifier":
                for n in ast.walk(node):
                    if isinstance(n, ast.Call) and ast.unparse(n.func) == "self._extract_string":
                        shape.append(ast.unparse(n).replace("self._extract_string", "_extract_string"))
            if isinstance(node, ast.Assign) and ast.unparse(node.targets[0]) == "self.identifier_escapes" \
                    and ast.unparse(node.value) == "identifier_escapes":
                if "self.identifier_escapes = identifier_escapes" not in shape:
                    shape.append("self.identifier_escapes = identifier_escapes")
        for node in ast.walk(tk):
            if isinstance(node, ast.keyword) and node.arg == "identifier_escapes":
                shape.append("identifier_escapes=" + ast.unparse(node.value))
            if isinstance(node, ast.Assign) and ast.unparse(node.targets[0]) == "cls._IDENTIFIER_ESCAPES":
                shape.append(ast.unparse(node))
    except Exception as e:  # noqa
        chk.broken.append({"kind": "translator", "what": f"C04 translator: cannot read the identifier scanner ({e!r})"})
    lines.append("def scanIdentifierShape : List String := [" + ", ".join(lean_str(x) for x in sorted(shape)) + "]")
    live_ie = []
    _, _, Dialect, *_ = sg()
    tok_classes = {}
    for nm in dialect_names():
        Dialect.get_or_raise(nm or None)  # make sure every dialect module (and its tokenizer classes) is imported
    import sqlglot.tokens as _tokens
    stack = [_tokens.Tokenizer]
    while stack:
        tkc = stack.pop()
        tok_classes[id(tkc._IDENTIFIERS)] = tkc
        stack.extend(tkc.__subclasses__())
    for label, rec in table.items():
        L = live("" if label == "base" else label)
        for k, core in enumerate(L["cores"]["id"]):
            tkc = tok_classes.get(id(core.identifiers))
            declared = sorted(set(tkc.IDENTIFIER_ESCAPES)) if tkc is not None else ["?"]
            live_ie.append(f"({lean_str(label + '/' + str(k))}, {chars(declared)}, {chars(sorted(core.identifier_escapes))})")
    lines.append("def identifierEscapesLive : List (String × List Char × List Char) := [" + ", ".join(live_ie) + "]")
    try:
        dflt, recs = esc_records(chk)
    except Shape as e:
        chk.broken.append({"kind": "translator", "what": f"C04 translator: structure changed (escape-table derivation): {e}"})
        dflt, recs = [], []
    lines.append("-- inputs and outputs of the _Dialect metaclass derivation of the escape tables, one record per dialect class")
    lines.append(f"def escDefault : List (Seq2 × Char) := {seq_lean(dflt)}")
    rl = []
    for r in recs:
        esc = "[" + ", ".join(f"({ch(v)}, ({ch(a)}, {ch(b)}))" for v, a, b in r["escaped"]) + "]"
        rl.append(f"  {{ name := {lean_str(r['name'])},\n    body := {{ strEsc := {chars(r['strEsc'])}, byteEsc := {chars(r['byteEsc'])}, unescBody := {seq_lean(r['body'])} }},\n"
                  f"    printable := {chars(r['printable'])},\n"
                  f"    observed := {{ supports := {lean_bool(r['supports'])}, byteSupports := {lean_bool(r['byteSupports'])},\n"
                  f"                  unesc := {seq_lean(r['unesc'])},\n                  escaped := {esc} }} }}")
    lines.append("def escRecords : List EscRecord := [\n" + ",\n".join(rl) + "\n]")
    # which derivation record feeds which pairing: (cfg, generator dialect class, tokenizer dialect class)
    ties = []
    by_un = [(r["name"], r["cls"]) for r in recs]
    for label, rec in table.items():
        L = live("" if label == "base" else label)
        gname = type(L["gen_str"].dialect).__name__
        for k, (ok, cfg) in enumerate(rec["str"]):
            core = L["cores"]["str"][k]
            tname = next((n for n, c in by_un if c.UNESCAPED_SEQUENCES is core.unescaped_sequences), None) or \
                next((n for n, c in by_un if c.UNESCAPED_SEQUENCES == core.unescaped_sequences), "?")
            ties.append(f"({cname(cfg)}, {lean_str(gname)}, {lean_str(tname)})")
    lines.append("def cfgTies : List (Cfg × String × String) := [" + ", ".join(ties) + "]")
    chk.cov["escape_derivation_records"] = len(recs)
    ovr, dsites, trf = quoting_overrides()
    lines.append("-- dialect-generator overrides of quoting methods, functions touching delimiter attributes, TRANSFORMS of literal-like nodes (ast)")
    lines.append("def quotingOverrides : List String := [" + ", ".join(lean_str(x) for x in ovr) + "]")
    lines.append("def delimiterSites : List String := [" + ", ".join(lean_str(x) for x in dsites) + "]")
    lines.append("def literalTransforms : List String := [" + ", ".join(lean_str(x) for x in trf) + "]")
    chk.cov["quoting_overrides"] = {"overrides": ovr, "delimiter_sites": dsites, "transforms": trf}
    lines.append("end SqlglotModel.Generated.C04")
    chk.cov["identifier_sites"] = sites
    chk.cov["dialects_translated"] = len(entries)
    chk.cov["distinct_cfgs"] = len(cfg_defs)
    chk.cov["ast_shapes"] = sh
    chk._c04_table = table
    return "\n".join(lines) + "\n"


# ------------------------------------------------------------------------------------------ the real side (correspondence)
def cps(s: str) -> list:
    return [ord(c) for c in s]


def show_cps(s: str) -> str:
    return ",".join(str(ord(c)) for c in s)


def real_extract(core, kind: str, start: str, end: str, body: str) -> str:
    """Drive TokenizerCore._extract_string exactly the way _scan_string / _scan_identifier do (non-raw, ordinary string)."""
    sql = start + body
    core.reset()
    core.sql = sql
    core.size = len(sql)
    try:
        core._advance(1)            # what _scan does for the first character
        if kind == "str":
            core._advance(len(start))   # _scan_string: _advance(len(start))
            text = core._extract_string(end, escapes=core.string_escapes, raw_string=False)
        else:
            core._scan_identifier(end)  # the real method: _advance(), its own choice of the escape set, _add
            text = core.tokens[-1].text
    except Exception:  # noqa  (TokenizerCore.tokenize turns every exception into TokenError)
        return "err"
    return "ok " + show_cps(text) + "|" + str(len(sql) - core._current)


def real_scan_comment(core, body: str) -> str:
    sql = "/*" + body
    core.reset()
    core.sql = sql
    core.size = len(sql)
    try:
        core._advance(1)
        if not core._scan_comment("/*"):
            return "notacomment"
    except Exception:  # noqa
        return "none"
    text = core._comments[-1] if core._comments else (core.tokens[-1].comments[-1] if core.tokens and core.tokens[-1].comments else None)
    if text is None:
        return "some " + str(len(sql) - core._current) + "|?"
    return "some " + str(len(sql) - core._current) + "|" + show_cps(text)


BASE_ALPHA = ["'", '"', "`", "\\", "[", "]", "$", "/", "*", "-", "#", "{", "}", "+", "%", "_", "\n", "\r", "\x00", "\t", " ", "\x07", "\x08", "\x0b", "\x0c", "\x1b",
              "a", "n", "0", "Z", "b", "r", "t", "v", "é", "😀", " ", "\x85", "\xa0", ";", ":", "@", "?", "(", ")", ",", ".", "="]


def alpha_for(cfg: dict) -> list:
    out = []
    for c in [cfg["q"], cfg["start"]] + cfg["escapes"] + cfg["quotes"] + ["\\", "n", "a", " "] + cfg["follow"][:1]:
        if c not in out:
            out.append(c)
    return out


def rand_text(rng, alpha, maxlen):
    n = rng.randint(0, maxlen)
    if rng.random() < 0.5:
        # concentrate on a few characters so that runs / pairs are likely
        alpha = rng.sample(alpha, min(len(alpha), rng.randint(2, 5)))
    return "".join(rng.choice(alpha) for _ in range(n))


def correspond(chk: Check) -> list:
    """model (on the GENERATED tables) vs the live objects.  Returns (dialect, kind, value) hints for the search."""
    rng = chk.rng
    table = chk._c04_table
    lines, expect, meta = [], [], []
    seen_cfg: dict = {}
    n_rand = chk.pick(60, 500)
    exh_len = chk.pick(3, 4)
    wf_q = []
    for label, rec in table.items():
        name = "" if label == "base" else label
        L = live(name)
        for kind, gk in (("str", "gen_str"), ("id", "gen_id")):
            gen = L[gk]
            for k, (ok, cfg) in enumerate(rec[kind]):
                core = L["cores"][kind][k]
                ref = {"d": label, "kind": kind, "k": k}
                wf_q.append(ref)
                if not ok:
                    continue
                start, end = cfg["start"], cfg["q"]
                alpha = alpha_for(cfg)
                key = json.dumps(cfg, sort_keys=True)
                streams = []
                values = []
                if key not in seen_cfg:
                    seen_cfg[key] = label
                    for n in range(0, exh_len + 1):
                        for tup in itertools.product(alpha, repeat=n):
                            streams.append("".join(tup))
                    for n in range(0, min(exh_len, 3) + 1):
                        for tup in itertools.product(alpha, repeat=n):
                            values.append("".join(tup))
                    chk.count("corr:distinct-cfg")
                wide = alpha + [c for c in BASE_ALPHA if c not in alpha]
                for _ in range(n_rand):
                    st = rand_text(rng, alpha if rng.random() < 0.6 else wide, 40)
                    if rng.random() < 0.7:  # mostly terminated literals followed by something
                        st += end + rand_text(rng, wide, 4)
                    streams.append(st)
                    values.append(rand_text(rng, alpha if rng.random() < 0.6 else wide, 30))
                for s in streams:
                    lines.append(json.dumps({"op": "extract", **ref, "s": cps(s)}))
                    r = real_extract(core, kind, start, end, s)
                    expect.append(r)
                    meta.append(("extract", label, kind, k, s))
                    chk.count("extract:" + r.split(" ")[0])
                    chk.case(("x", key, s), nontrivial=len(s) > 0)
                for v in values:
                    extra = []
                    if kind == "str":
                        g = gen
                        if rng.random() < 0.5:
                            # per-instance state must not leak between calls with different arguments: a FRESH generator
                            # of the same class whose first escape_str call has escape_backslash=False
                            try:
                                g = type(gen)(dialect=gen.dialect)
                            except Exception:  # noqa
                                g = gen
                            g.escape_str(v + "\\", escape_backslash=False)
                            chk.count("escape:after-escape_backslash=False")
                        real = g.escape_str(v)
                        lines.append(json.dumps({"op": "esc", **ref, "v": cps(v)}))
                    else:
                        _, exp, *_ = sg()
                        out = gen.identifier_sql(exp.Identifier(this=v, quoted=True))
                        if not (out.startswith(gen._identifier_start) and out.endswith(gen._identifier_end) and len(out) >= 2):
                            chk.correspondence_broken("identifier_sql does not wrap in the identifier delimiters",
                                                      {"dialect": label, "v": v, "impl": out})
                            continue
                        real = out[1:-1]
                        lines.append(json.dumps({"op": "ident", **ref, "v": cps(v)}))
                        if len(v) <= 10:
                            # every Identifier flag a parser can set: the override (T-SQL: #/## marker inside the brackets) may only
                            # add a marker in front of what the base identifier_sql writes
                            for fk in id_flag_kinds():
                                flag = fk.split("-", 1)[1]
                                b = gen.identifier_sql(exp.Identifier(this="p", quoted=True, **{flag: True}))
                                o2 = gen.identifier_sql(exp.Identifier(this=v, quoted=True, **{flag: True}))
                                st_, en_ = gen._identifier_start, gen._identifier_end
                                if not (b.startswith(st_) and b.endswith("p" + en_)):
                                    chk.correspondence_broken("flagged identifier is not start + marker + name + end",
                                                              {"dialect": label, "flag": flag, "impl": b})
                                    continue
                                pre = b[:-len("p" + en_)]
                                if not (o2.startswith(pre) and o2.endswith(en_)):
                                    chk.correspondence_broken("flagged identifier is not start + marker + name + end",
                                                              {"dialect": label, "flag": flag, "v": v, "impl": o2})
                                    continue
                                extra.append((json.dumps({"op": "ident", **ref, "v": cps(v)}),
                                              show_cps(o2[len(pre):len(o2) - len(en_)]),
                                              (f"identifier_sql({flag})", label, kind, k, v)))
                                chk.count("escape:flagged-identifier")
                    expect.append(show_cps(real))
                    meta.append(("escape", label, kind, k, v))
                    for ln_, ex_, me_ in extra:
                        lines.append(ln_)
                        expect.append(ex_)
                        meta.append(me_)
                    if kind == "str" and len(v) <= 12:
                        _, exp, *_ = sg()
                        out = gen.rawstring_sql(exp.RawString(this=v))
                        lines.append(json.dumps({"op": "rawsql", **ref, "v": cps(v)}))
                        expect.append(show_cps(out[1:-1]))
                        meta.append(("rawstring_sql", label, kind, k, v))
                        if rec["byte"] and rec["byte"][k][0]:
                            bd = gen.dialect
                            out = gen.escape_str(v, escape_backslash=False, delimiter=bd.BYTE_END,
                                                 escaped_delimiter=gen._escaped_byte_quote_end, is_byte_string=True)
                            lines.append(json.dumps({"op": "bytesql", "d": label, "kind": "byte", "k": k, "v": cps(v)}))
                            expect.append(show_cps(out))
                            meta.append(("bytestring escape", label, "byte", k, v))
                    chk.case(("e", key, v), nontrivial=real != v)
                    chk.count("escape:" + ("changed" if real != v else "identity"))
        # comments
        gen = L["gen_com"]
        for k, (blk, nested) in enumerate(rec["com"]):
            core = L["cores"]["com"][k]
            calpha = ["/", "*", " ", "a", "+", "\n", "-", "#", "\xa0"]
            bodies = [rand_text(rng, calpha if rng.random() < 0.7 else BASE_ALPHA, 24) + ("*/" + rand_text(rng, calpha, 6) if rng.random() < 0.7 else "")
                      for _ in range(n_rand)]
            if label in ("base", "mysql", "trino"):
                for n in range(0, chk.pick(4, 6) + 1):
                    for tup in itertools.product(["/", "*", " ", "a"], repeat=n):
                        bodies.append("".join(tup))
            for b in bodies:
                lines.append(json.dumps({"op": "scanc", "nested": nested, "s": cps(b)}))
                r = real_scan_comment(core, b)
                expect.append(r)
                meta.append(("scanc", label, "com", k, b))
                chk.count("scanc:" + r.split(" ")[0])
                chk.case(("c", nested, b), nontrivial="*" in b or "/" in b)
                if b and k == 0 and rng.random() < 0.3:
                    cs = [b, "", rand_text(rng, calpha, 5)][: rng.randint(1, 3)]
                    sp = "".join(sorted(set(c for x in cs for c in x if not c.strip())))
                    lines.append(json.dumps({"op": "mc", "sp": cps(sp), "sql": cps("x"), "cs": [cps(x) for x in cs]}))
                    expect.append(show_cps(gen.maybe_comment("x", comments=cs)))
                    meta.append(("maybe_comment", label, "com", k, cs))
                if b and k == 0:
                    lines.append(json.dumps({"op": "san", "sp": cps("".join(sorted(set(c for c in b if not c.strip())))), "c": cps(b)}))
                    expect.append(show_cps(gen.sanitize_comment(b)))
                    meta.append(("san", label, "com", k, b))
    n_main = len(lines)
    for ref in wf_q:
        lines.append(json.dumps({"op": "wf", **ref}))
    got = chk.driver("C04", lines)
    chk.corr_cases += n_main
    hints = []
    for g, e, m in zip(got[:n_main], expect, meta):
        if g != e:
            what, label, kind, k, s = m
            chk.correspondence_broken(f"{what} ({label}, {kind}, pass {k})", {"dialect": label, "kind": kind, "pass": k, "input": s,
                                                                               "model": g, "impl": e})
            hints.append((label, kind, s))
    # which pairings are well-formed according to the model (for the evidence file and the search's expectations)
    wfmap = {}
    for ref, g in zip(wf_q, got[n_main:]):
        wfmap[(ref["d"], ref["kind"], ref["k"])] = g
    chk.cov["not_wf_pairings"] = sorted(f"{d}/{kind}/pass{k}" for (d, kind, k), g in wfmap.items() if not g.startswith("true"))
    chk._c04_wf = wfmap
    return hints


REAL_KIND = {"STRING": "str", "NATIONAL_STRING": "national", "BYTE_STRING": "byte", "RAW_STRING": "raw", "UNICODE_STRING": "unicode",
             "HEX_STRING": "hex", "BIT_STRING": "bit", "HEREDOC_STRING": "heredoc", "IDENTIFIER": "ident"}
SAFE_WORDS = ["a", "b", "foo", "x1", "k_2", "zz", "n", "r", "e", "N", "B", "X", "u"]


def real_lex(core, sql: str) -> str:
    try:
        toks = core.tokenize(sql)
    except Exception:  # noqa
        return "err"
    return "ok " + ";".join(REAL_KIND.get(t.token_type.name, "other") + ":" + show_cps(t.text) for t in toks)


def rand_lex_input(rng, lc: dict, wide: list) -> str:
    """a statement-like text: literals of every start key, identifiers, comments, safe words, numbers, punctuation"""
    out = []
    special = ["'", '"', "`", "\\", "]", "\n", " ", "a", "n", "%", "*", "/", "$"]
    for _ in range(rng.randint(1, 6)):
        r = rng.random()
        if r < 0.4 and lc["strStarts"]:
            st, kind, en, raw, cfg = rng.choice(lc["strStarts"])
            if kind in ("hex", "bit", "heredoc") and rng.random() < 0.8:
                st, kind, en, raw, cfg = lc["strStarts"][0]
            body = rand_text(rng, special + list(en) if rng.random() < 0.7 else wide, 8)
            piece = st + body + (en if rng.random() < 0.85 else "")
        elif r < 0.55 and lc["identifiers"]:
            st, cfg = rng.choice(lc["identifiers"])
            piece = st + rand_text(rng, special + [cfg["q"]], 6) + (cfg["q"] if rng.random() < 0.85 else "")
        elif r < 0.7:
            body = rand_text(rng, ["/", "*", " ", "a", "+", "\n", "-"], 8)
            piece = rng.choice(["/*" + body + "*/", "/* " + body + " */", "--" + body.replace("\n", " ") + "\n", "/*" + body])
        elif r < 0.85:
            piece = rng.choice(SAFE_WORDS)
        elif r < 0.93:
            piece = str(rng.randint(0, 999))
        else:
            piece = rng.choice([",", "(", ")", "="])
        out.append(piece)
        out.append(rng.choice([" ", " ", " ", "", "\n", "\t", "  ", "\xa0"]))
    return "".join(out)


def correspond_lex(chk: Check) -> None:
    """token level: the dispatch model (Model/StrLex.lean, generated tables) vs TokenizerCore.tokenize (type + text)"""
    rng = chk.rng
    lines, expect, meta = [], [], []
    n_rand = chk.pick(120, 1500)
    seen = set()
    for label, rec in chk._c04_table.items():
        L = live("" if label == "base" else label)
        for k, lc in enumerate(rec["lex"]):
            core = L["cores"]["str"][k]
            key = json.dumps(lc, sort_keys=True)
            inputs = []
            if key not in seen:
                seen.add(key)
                # every start key with small bodies, followed by each kind of neighbour
                for st, kind, en, raw, cfg in lc["strStarts"]:
                    for body in ["", "a", en[:1], "\\", "a" + en[:1] * 2 + "b", "\\" + en[:1], en[:1] * 2, "a\\\\", "\\n"]:
                        for tail in [" ", "", ",", " a", en[:1], "\n", ")"]:
                            inputs.append(st + body + en + tail)
                for st, cfg in lc["identifiers"]:
                    for body in ["", "a", cfg["q"] * 2, "\\", "a" + cfg["q"] * 2]:
                        for tail in [" ", "", ".", " a", ","]:
                            inputs.append(st + body + cfg["q"] + tail)
                for body in ["", " ", " a ", " * ", "/", "*", " /* x */ ", " /* ", "+ h ", " a*", " a/", "\n+"]:
                    for pre in ["a ", "", "1 ", "'s' "]:
                        inputs.append(pre + "/*" + body + "*/ b")
            wide = BASE_ALPHA
            for _ in range(n_rand):
                inputs.append(rand_lex_input(rng, lc, wide))
            for _ in range(n_rand // 4):
                inputs.append(rand_text(rng, wide, 12))
            for sql in inputs:
                lines.append(json.dumps({"op": "lex", "d": label, "k": k, "sp": cps("".join(sorted(set(c for c in sql if c.isspace())))),
                                         "s": cps(sql)}))
                expect.append(real_lex(core, sql))
                meta.append((label, k, sql))
    got = chk.driver("C04", lines)
    n_unsup = 0
    for g, e, (label, k, sql) in zip(got, expect, meta):
        if g == "unsupported":
            n_unsup += 1
            chk.count("lex:unsupported")
            continue
        chk.corr_cases += 1
        chk.count("lex:" + e.split(" ")[0])
        chk.case(("lex", label, k, sql), nontrivial=e != "ok ")
        if g != e:
            chk.correspondence_broken(f"lex ({label}, pass {k})", {"dialect": label, "pass": k, "input": sql, "model": g, "impl": e})
    chk.cov["lex_correspondence"] = {"inputs": len(lines), "outside_model_fragment": n_unsup}


def validate_char_assumptions(chk: Check) -> None:
    """CPython facts the model takes as hypotheses: `/` and `*` are not blank; no escape / delimiter / comment character
    is alphanumeric (so `_advance(alnum=True)` never skips over a character the loops test for)."""
    if not "/".strip() or not "*".strip():
        raise HarnessError("'/' or '*' is blank for str.strip on this CPython")
    bad = []
    for label, rec in chk._c04_table.items():
        for kind in ("str", "id"):
            for ok, cfg in rec[kind]:
                for c in [cfg["q"]] + cfg["escapes"]:
                    if c.isalnum():
                        bad.append((label, kind, c))
    for label, rec in chk._c04_table.items():
        for lc in rec["lex"]:
            for key in lc["keys"]:
                if key.startswith("/*") and len(key) > 2:
                    e = key[2]
                    if e.isspace() or e.lower().isspace():
                        bad.append((label, "blank character reaches trie key", key))
            for st in (rec["strStart"], rec["idStart"], rec["natStart"], rec["byteStart"]):
                if st and st[0].isspace():
                    bad.append((label, "blank start", st))
    mism = sum(1 for cp in range(0x110000) if not 0xD800 <= cp <= 0xDFFF and chr(cp).isspace() != (not chr(cp).strip()))
    chk.cov["isspace_vs_strip_mismatches"] = mism
    if mism:
        raise HarnessError("str.isspace and strip() emptiness disagree on this CPython")
    if "/".isalnum() or "*".isalnum():
        bad.append(("comment", "", "/*"))
    chk.cov["alnum_skip_assumption"] = {"checked": True, "violations": bad}
    if bad:
        chk.broken.append({"kind": "translator", "what": f"an escape/delimiter character is alphanumeric, the alnum bulk skip of _advance is no longer a pure optimisation: {bad[:3]}"})


# ------------------------------------------------------------------------------------------ search: the property's own oracle
KINDS = ["string", "identifier", "national", "raw", "byte", "comment", "builder"]
BASELINE = "p"


def toks_of(d, sql):
    _, _, Dialect, *_ = sg()
    return [(t.token_type.name, t.text) for t in Dialect.get_or_raise(d or None).tokenize(sql)]


def build(kind: str, v: str, variant: int):
    """The expression whose SQL carries `v`; returns (expression, literal token types that may carry v)."""
    _, exp, *_ = sg()
    if kind == "string":
        return (exp.Literal.string(v) if variant % 2 == 0 else exp.convert(v)), ("STRING",)
    if kind == "identifier":
        return exp.to_identifier(v, quoted=True), ("IDENTIFIER",)
    if kind.startswith("identifier-"):
        # every flag the parsers can set on an Identifier (T-SQL: temporary / global_ for [#t] / [##t])
        return exp.Identifier(this=v, quoted=True, **{kind.split("-", 1)[1]: True}), ("IDENTIFIER",)
    if kind == "national":
        return exp.National(this=v), ("NATIONAL_STRING", "STRING")
    if kind == "raw":
        return exp.RawString(this=v), ("STRING", "RAW_STRING")
    if kind == "byte":
        return exp.ByteString(this=v), ("BYTE_STRING", "STRING")
    if kind == "unicode":
        return exp.UnicodeString(this=v), ("UNICODE_STRING", "STRING")
    if kind == "builder":
        m = variant % 4
        if m == 0:
            e = exp.select(exp.column("c", table=exp.to_identifier(v, quoted=True))).from_(exp.to_table("t")).where(
                exp.column("x").eq(exp.convert(v)))
        elif m == 1:
            e = exp.select(exp.alias_(exp.convert(v), exp.to_identifier(v, quoted=True))).from_(
                exp.Table(this=exp.to_identifier(v, quoted=True)))
        elif m == 2:
            e = exp.select("a").from_("t").where(exp.column("a").isin(exp.convert(v), exp.convert("k"))).where(
                exp.column(exp.to_identifier(v, quoted=True)).like(exp.convert(v)))
        else:
            e = exp.select(exp.func("COALESCE", exp.column("a"), exp.convert(v))).from_("t").order_by(
                exp.column(exp.to_identifier(v, quoted=True)))
        return e, ("STRING", "IDENTIFIER")
    raise HarnessError(kind)


def comment_stmt(v, variant: int):
    _, exp, *_ = sg()
    e = exp.select(exp.column("a"), exp.Literal.number(1)).from_("t").where(exp.column("b").eq(exp.Literal.string("s")))
    m = variant % 4
    target = [e.expressions[0], e.expressions[1], e, e.args["where"].this][m]
    if v is not None:
        target.add_comments([v])
    return e


def oracle(d, kind: str, v: str, opts: dict, variant: int = 0):
    """None if the property holds for (dialect, kind, value, options); else (verdict, description)."""
    d = d or None
    try:
        if kind == "comment":
            if not v:
                return None
            base = comment_stmt(None, variant).sql(dialect=d, **opts)
            sql = comment_stmt(v, variant).sql(dialect=d, **opts)
            want = toks_of(d, base)
            try:
                got = toks_of(d, sql)
            except Exception as ex:  # noqa
                return "error", f"{sql!r} does not lex: {type(ex).__name__}"
            if got != want:
                return "tokens-changed", f"with the comment the statement lexes to {got[:8]} instead of {want[:8]} ({sql!r})"
            return None
        e0, types = build(kind, BASELINE, variant)
        e1, _ = build(kind, v, variant)
        base = e0.sql(dialect=d, **opts)
        sql = e1.sql(dialect=d, **opts)
        if not base:
            return None  # this literal kind cannot be written in this dialect
        want = toks_of(d, base)
    except Exception as ex:  # noqa
        return "error", f"generation/baseline raised {type(ex).__name__}: {str(ex)[:80]}"
    try:
        got = toks_of(d, sql)
    except Exception as ex:  # noqa
        return "error", f"{sql!r} does not lex: {type(ex).__name__}"
    if len(got) != len(want):
        return "extra-tokens", f"{sql!r} lexes to {len(got)} tokens {got[:6]}, the same expression for {BASELINE!r} to {len(want)}"
    for (ty0, tx0), (ty1, tx1) in zip(want, got):
        marker = tx0[:-len(BASELINE)] if tx0.endswith(BASELINE) else None
        if ty0 in types and marker is not None and marker.strip("#") == "":
            if ty1 != ty0:
                return "extra-tokens", f"{sql!r}: token {ty1} where {ty0} was expected"
            if tx1 != marker + v:
                return "wrong-text", f"{sql!r} lexes back to the value {tx1!r}, not {marker + v!r}"
        elif (ty0, tx0) != (ty1, tx1):
            return "extra-tokens", f"{sql!r}: token {(ty1, tx1)} where {(ty0, tx0)} was expected"
    return None


def skeleton(v: str) -> str:
    out = []
    for c in v:
        if c.isalnum() and c.isascii():
            out.append("a")
        elif ord(c) < 32 or ord(c) == 127:
            out.append("\\x%02x" % ord(c))
        elif not c.isascii():
            out.append("u")
        else:
            out.append(c)
    return "".join(out)


def shrink(d, kind, v, opts, variant):
    """1-minimal value (character deletion) that still violates; options dropped when not needed."""
    def fails(val, o=opts, var=variant):
        return oracle(d, kind, val, o, var) is not None
    changed = True
    while changed:
        changed = False
        size = max(1, len(v) - 1)
        while size >= 1 and not changed:
            for i in range(0, len(v) - size + 1):
                cand = v[:i] + v[i + size:]
                if (kind != "comment" or cand) and fails(cand):
                    v = cand
                    changed = True
                    break
            size -= 1
    for i, c in enumerate(v):  # canonicalise letters
        if c.isalnum() and c != "a" and fails(v[:i] + "a" + v[i + 1:]):
            v = v[:i] + "a" + v[i + 1:]
    for k in list(opts):
        o2 = {a: b for a, b in opts.items() if a != k}
        if fails(v, o2):
            opts = o2
    if variant and fails(v, opts, 0):
        variant = 0
    return v, opts, variant


def consider(chk: Check, d, kind, v, opts, variant=0) -> bool:
    label = d or "base"
    if opts.get("pretty") and SENTINEL in v:
        return False  # the in-band pretty sentinel is C07's finding, not C04's
    res = oracle(d, kind, v, opts, variant)
    chk.count("search:" + kind)
    if res is None:
        return False
    # a defect of the plain literal / identifier reached through another API is reported as the plain one
    if kind.startswith("identifier-") and oracle(d, "identifier", v, {}, 0) is not None:
        return consider(chk, d, "identifier", v, {}, 0)
    if kind in ("national", "raw", "byte", "unicode", "builder"):
        for k2 in ("string", "identifier"):
            if k2 == "identifier" and kind != "builder":
                continue
            if oracle(d, k2, v, {}, 0) is not None:
                return consider(chk, d, k2, v, {}, 0)
    v2, opts2, var2 = shrink(d, kind, v, opts, variant)
    verdict, what = oracle(d, kind, v2, opts2, var2)
    chk.report_violation(f"{kind}:{verdict}:{skeleton(v2)}", f"[{label}] {kind}: {what}",
                         {"dialect": d, "kind": kind, "value": v2, "opts": opts2, "variant": var2}, {"dialect": label})
    return True


# ---- statement-level compositions: several literal kinds in ONE .sql() call / ONE reused Generator instance -------------
LIT_KINDS = ["string", "identifier", "national", "raw", "byte", "unicode"]


def id_flag_kinds() -> list:
    """one literal kind per optional flag of exp.Identifier (introspected: today `global_`, `temporary`)"""
    _, exp, *_ = sg()
    return ["identifier-" + k for k in sorted(exp.Identifier.arg_types) if k not in ("this", "quoted")]
_SINGLE_OK: dict = {}


def single_ok(d, kind, v) -> bool:
    """does the literal on its own satisfy the property (otherwise it is a per-literal defect, reported separately)"""
    key = (d, kind, v)
    if key not in _SINGLE_OK:
        _SINGLE_OK[key] = oracle(d, kind, v, {}, 0) is None
    return _SINGLE_OK[key]


def lit_node(kind, v):
    _, exp, *_ = sg()
    e, types = build(kind, v, 0)
    if kind == "identifier" or kind.startswith("identifier-"):
        e = exp.column(e)
    return e, types


def stmt_nodes(items, values):
    nodes, types = [], []
    for (kind, _, com), v in zip(items, values):
        e, ty = lit_node(kind, v)
        if com:
            e.add_comments([com])
        nodes.append(e)
        types.append(ty)
    return nodes, types


def stmt_expr(nodes, shape):
    _, exp, *_ = sg()
    m = shape % 3
    if m == 0 and len(nodes) >= 2:
        return exp.select(*nodes[:-1]).from_("t").where(exp.column("k").eq(nodes[-1]))
    if m == 1:
        return exp.select(exp.func("F", *nodes)).from_("t")
    return exp.select(*nodes)


def compare_tokens(want, got, expect: dict, sql):
    """`expect`: placeholder text -> (value, allowed literal token types)."""
    if len(got) != len(want):
        return "extra-tokens", f"{sql!r} lexes to {len(got)} tokens {got[:8]}, the same statement with placeholder values to {len(want)}"
    for (ty0, tx0), (ty1, tx1) in zip(want, got):
        key0 = tx0.lstrip("#") if tx0.lstrip("#") in expect else tx0
        marker = tx0[:len(tx0) - len(key0)]
        if key0 in expect and ty0 in expect[key0][1]:
            if ty1 != ty0:
                return "extra-tokens", f"{sql!r}: token {ty1} where {ty0} was expected"
            if tx1 != marker + expect[key0][0]:
                return "wrong-text", f"{sql!r}: the literal for {expect[key0][0]!r} lexes back as {tx1!r}"
        elif (ty0, tx0) != (ty1, tx1):
            return "extra-tokens", f"{sql!r}: token {(ty1, tx1)} where {(ty0, tx0)} was expected"
    return None


def oracle_stmt(d, spec: dict):
    """Several literals of different kinds generated in one statement (mode "one") or one after the other by ONE reused
    Generator instance with `pretty` toggled between the calls (mode "reuse"): every literal must come back as its own
    single token with its own value.  None if the property holds, else (verdict, description)."""
    _, exp, Dialect, *_ = sg()
    d = d or None
    items = spec["items"]
    opts = dict(spec.get("opts", {}))
    values = [v for _, v, _ in items]
    holders = [f"p{i}q" for i in range(len(items))]
    try:
        if spec.get("mode", "one") == "one":
            n0, types = stmt_nodes([(k, v, None) for k, v, _ in items], holders)
            n1, _ = stmt_nodes(items, values)
            base = stmt_expr(n0, spec.get("shape", 0)).sql(dialect=d, **opts)
            sql = stmt_expr(n1, spec.get("shape", 0)).sql(dialect=d, **opts)
            pairs = [(base, sql, {h: (v, ty) for h, v, ty in zip(holders, values, types)})]
        else:
            gen = Dialect.get_or_raise(d).generator(**opts)
            seq = spec.get("pretty_seq") or [False] * len(items)
            pairs = []
            for i, item in enumerate(items):
                pr = bool(seq[i % len(seq)])
                n0, types = stmt_nodes([(item[0], item[1], None)], [holders[i]])
                n1, _ = stmt_nodes([item], [values[i]])
                o2 = {k: v for k, v in opts.items() if k != "pretty"}
                base = Dialect.get_or_raise(d).generate(exp.select(n0[0]), pretty=pr, **o2)
                gen.pretty = pr
                sql = gen.generate(exp.select(n1[0]))
                pairs.append((base, sql, {holders[i]: (values[i], types[0])}))
    except Exception as ex:  # noqa
        return "error", f"generation raised {type(ex).__name__}: {str(ex)[:80]}"
    for base, sql, expect in pairs:
        try:
            want = toks_of(d, base)
        except Exception as ex:  # noqa
            return "error", f"placeholder statement {base!r} does not lex: {type(ex).__name__}"
        try:
            got = toks_of(d, sql)
        except Exception as ex:  # noqa
            return "error", f"{sql!r} does not lex: {type(ex).__name__}"
        res = compare_tokens(want, got, expect, sql)
        if res:
            return res
    return None


def stmt_admissible(d, spec) -> bool:
    pretty = spec.get("opts", {}).get("pretty") or any(spec.get("pretty_seq") or [])
    for kind, v, com in spec["items"]:
        if not single_ok(d, kind, v):
            return False
        if pretty and (SENTINEL in v or (com and SENTINEL in com)):
            return False
    return bool(spec["items"])


def shrink_stmt(d, spec):
    def fails(sp):
        return stmt_admissible(d, sp) and oracle_stmt(d, sp) is not None

    def with_items(items):
        sp = dict(spec)
        sp["items"] = items
        return sp

    changed = True
    while changed:
        changed = False
        items = spec["items"]
        for i in range(len(items)):
            if len(items) > 1 and fails(with_items(items[:i] + items[i + 1:])):
                spec = with_items(items[:i] + items[i + 1:])
                changed = True
                break
            k, v, com = items[i]
            if com and fails(with_items(items[:i] + [[k, v, None]] + items[i + 1:])):
                spec = with_items(items[:i] + [[k, v, None]] + items[i + 1:])
                changed = True
                break
            done = False
            for size in range(max(1, len(v) - 1), 0, -1):
                for j in range(0, len(v) - size + 1):
                    cand = v[:j] + v[j + size:]
                    if fails(with_items(items[:i] + [[k, cand, com]] + items[i + 1:])):
                        spec = with_items(items[:i] + [[k, cand, com]] + items[i + 1:])
                        changed = done = True
                        break
                if done:
                    break
            if done:
                break
    for k in list(spec.get("opts", {})):
        sp = dict(spec)
        sp["opts"] = {a: b for a, b in spec["opts"].items() if a != k}
        if fails(sp):
            spec = sp
    if spec.get("mode") == "reuse" and any(spec.get("pretty_seq") or []):
        sp = dict(spec)
        sp["pretty_seq"] = [False]
        if fails(sp):
            spec = sp
    if spec.get("shape"):
        sp = dict(spec)
        sp["shape"] = 2
        if fails(sp):
            spec = sp
    return spec


def consider_stmt(chk: Check, d, spec) -> bool:
    """Items whose literal fails on its own get a harmless value (that defect is reported by the per-literal oracle)."""
    spec = dict(spec)
    spec["items"] = [[k, (v if single_ok(d, k, v) else "abc"), c] for k, v, c in spec["items"]]
    if not stmt_admissible(d, spec):
        return False
    chk.count("search:statement-" + spec.get("mode", "one"))
    res = oracle_stmt(d, spec)
    if res is None:
        return False
    spec = shrink_stmt(d, spec)
    verdict, what = oracle_stmt(d, spec)
    kinds = ",".join(k for k, _, _ in spec["items"])
    skel = "|".join(skeleton(v) for _, v, _ in spec["items"])
    chk.report_violation(f"statement:{spec.get('mode', 'one')}:{verdict}:{kinds}:{skel}",
                         f"[{d or 'base'}] several literals, {'one reused Generator' if spec.get('mode') == 'reuse' else 'one statement'}: {what}",
                         {"dialect": d, "kind": "statement", "spec": spec}, {"dialect": d or "base"})
    return True


STMT_ADV = ["x\\' OR 1=1 -- ", "a\\", "'\\", "\\\\'", 'a"\\"']


def stmt_templates(quick: bool):
    adv = STMT_ADV[:3] if quick else STMT_ADV
    for trig in ("raw", "byte", "unicode", "national"):
        for a in adv:
            yield {"mode": "one", "shape": 0, "opts": {}, "items": [[trig, "abc", None], ["string", a, None]]}
            yield {"mode": "reuse", "opts": {}, "pretty_seq": [False, True], "items": [[trig, "abc", None], ["string", a, None]]}
    for a in adv:
        yield {"mode": "one", "shape": 1, "opts": {}, "items": [["string", a, None], ["raw", a, None], ["identifier", a, "c */"], ["string", a, None]]}
        yield {"mode": "reuse", "opts": {}, "pretty_seq": [True, False], "items": [["string", a, None], ["byte", "abc", None], ["string", a, None], ["identifier", a, None]]}


def rand_stmt_spec(rng, alpha):
    n = rng.randint(2, 5)
    items = []
    for _ in range(n):
        kind = rng.choice(["string", "string", "string", "identifier", "national", "raw", "byte", "unicode"] + id_flag_kinds())
        r = rng.random()
        if r < 0.35:
            v = rng.choice(STMT_ADV)
        elif r < 0.5:
            v = "abc"
        else:
            v = rand_text(rng, alpha, 12)
        if kind == "unicode":
            # UnicodeString.this is escape-coded text (a backslash introduces a code point), not a free value: it only
            # serves as a node that calls escape_str with other arguments; keep it harmless
            v = rand_text(rng, ["a", "b", "0", " "], 6)
        com = rand_text(rng, ["/", "*", " ", "a", "\\", "'"], 8) if rng.random() < 0.2 else None
        items.append([kind, v, com or None])
    mode = rng.choice(["one", "one", "reuse"])
    opts = dict(rng.choice([{}, {}, {"pretty": True}, {"identify": True}]))
    return {"mode": mode, "shape": rng.randint(0, 2), "opts": opts, "items": items,
            "pretty_seq": [rng.random() < 0.5 for _ in range(n)] if mode == "reuse" else None}


# ---- the builder API: every public entry point that turns a Python value or a name into SQL text --------------------------
API_BASE = "p q"   # harmless but not a "safe" identifier: a name API has to quote it, a value API to put it in a literal
_API: dict = {}


def api_entries() -> dict:
    """name -> (builder(v) -> Expression, "string" | "identifier").  Entry points whose str arguments are documented as SQL
    text to be parsed (select/from_/where/join/func args, to_table, to_column, cast(to=), update keys, rename_*, with_) and
    raw-by-design nodes (Var, Placeholder / Parameter names, function names) are not value/name entry points."""
    if _API:
        return _API
    import collections
    import datetime
    import types as pytypes

    _, exp, *_ = sg()
    import sqlglot

    NT = collections.namedtuple("NT", ["f", "g"])

    class TZ(datetime.tzinfo):
        def __init__(self, n):
            self.n = n

        def utcoffset(self, dt):
            return datetime.timedelta(0)

        def dst(self, dt):
            return None

        def tzname(self, dt):
            return self.n

        def __str__(self):
            return self.n

    sel = exp.select
    col = exp.column
    E = _API
    # values
    E["convert(str)"] = (lambda v: sel(exp.convert(v)), "string")
    E["convert(list)"] = (lambda v: sel(exp.convert([v, "k"])), "string")
    E["convert(tuple)"] = (lambda v: sel(exp.convert((1, v))), "string")
    E["convert(dict key)"] = (lambda v: sel(exp.convert({v: 1})), "string")
    E["convert(dict value)"] = (lambda v: sel(exp.convert({"k": v})), "string")
    E["convert(namedtuple value)"] = (lambda v: sel(exp.convert(NT(f=v, g=1))), "string")
    E["convert(object value)"] = (lambda v: sel(exp.convert(pytypes.SimpleNamespace(f=v))), "string")
    E["convert(object attribute name)"] = (lambda v: sel(exp.convert(pytypes.SimpleNamespace(**{v: 1}))), "identifier")
    E["convert(nested)"] = (lambda v: sel(exp.convert([{"k": (v, pytypes.SimpleNamespace(f=[v]))}])), "string")
    E["convert(datetime tzinfo)"] = (lambda v: sel(exp.convert(datetime.datetime(2020, 1, 2, 3, 4, 5, tzinfo=TZ(v)))), "string")
    E["Condition.eq"] = (lambda v: sel("a").from_("t").where(col("x").eq(v)), "string")
    E["Condition.like/isin/between"] = (lambda v: sel("a").from_("t").where(col("x").like(v)).where(col("y").isin(v, "k"))
                                        .where(col("z").between(v, v)), "string")
    E["Condition.and_(Expression)"] = (lambda v: sel("a").from_("t").where(exp.and_(col("x").neq(v), col("y").is_(exp.convert(v)))), "string")
    E["replace_placeholders(kwargs)"] = (lambda v: exp.replace_placeholders(sqlglot.parse_one("SELECT :x FROM t WHERE a = :x"), x=v), "string")
    E["replace_placeholders(args)"] = (lambda v: exp.replace_placeholders(sqlglot.parse_one("SELECT ? FROM t"), v), "string")
    E["update(properties values)"] = (lambda v: exp.update("t", {"c": v, "d": [v]}), "string")
    E["values(rows)"] = (lambda v: sel("*").from_(exp.values([(v, 1)], alias="t", columns=["a", "b"])), "string")
    E["insert(values)"] = (lambda v: exp.insert(exp.values([(v, 2)]), "t"), "string")
    E["Literal.string in func"] = (lambda v: sel(exp.func("COALESCE", col("a"), exp.Literal.string(v))), "string")
    # names
    E["to_identifier"] = (lambda v: sel(col(exp.to_identifier(v))), "identifier")
    E["column(name)"] = (lambda v: sel(col(v)), "identifier")
    E["column(table/db/catalog)"] = (lambda v: sel(col("c", table=v, db=v, catalog=v)), "identifier")
    E["table_(name)"] = (lambda v: sel("a").from_(exp.table_(v)), "identifier")
    E["table_(db/catalog/alias)"] = (lambda v: sel("a").from_(exp.table_("t", db=v, catalog=v, alias=v)), "identifier")
    E["alias_"] = (lambda v: sel(exp.alias_(col("a"), v)), "identifier")
    E["alias_(table columns)"] = (lambda v: sel("*").from_(exp.alias_(exp.table_("t"), "x", table=[v])), "identifier")
    E["Expression.as_"] = (lambda v: sel(col("a").as_(v)), "identifier")
    E["Select.subquery(alias)"] = (lambda v: sel("*").from_(sel("a").from_("t").subquery(v)), "identifier")
    E["subquery(alias)"] = (lambda v: exp.subquery("SELECT a FROM t", v), "identifier")
    E["values(alias)"] = (lambda v: sel("*").from_(exp.values([(1,)], alias=v)), "identifier")
    E["values(columns)"] = (lambda v: sel("*").from_(exp.values([(1, 2)], alias="t", columns=[v, "b"])), "identifier")
    E["insert(columns)"] = (lambda v: exp.insert("SELECT 1", "t", columns=[v]), "identifier")
    E["Table(to_identifier)"] = (lambda v: sel("a").from_(exp.Table(this=exp.to_identifier(v), db=exp.to_identifier(v))), "identifier")
    for flag in sorted(exp.Identifier.arg_types):
        if flag in ("this", "quoted"):
            continue
        E[f"Table(Identifier {flag})"] = (lambda v, flag=flag: sel("a").from_(exp.Table(this=exp.Identifier(this=v, quoted=True, **{flag: True}))),
                                          "identifier")
        E[f"column(Identifier {flag})"] = (lambda v, flag=flag: sel(col(exp.Identifier(this=v, quoted=True, **{flag: True}),
                                                                  table=exp.Identifier(this=v, quoted=True, **{flag: True}))), "identifier")
    E["Dot/struct field"] = (lambda v: sel(exp.Dot.build([col("s"), exp.to_identifier(v)])), "identifier")
    return _API


API_ENTRIES = None  # filled lazily (needs sqlglot importable)


def safe_name(v: str) -> bool:
    import re
    return bool(re.match(r"^[_a-zA-Z]\w*$", v))


def oracle_api(d, name: str, v: str, opts: dict | None = None):
    """the adversarial text must come back as exactly ONE string / identifier token carrying exactly v — or the API must
    refuse it.  None if that holds, else (verdict, description)."""
    fn, kind = api_entries()[name]
    d = d or None
    opts = opts or {}
    if kind == "identifier" and v == "":
        return None  # an empty name means "no name" to the builders
    types = ("STRING", "NATIONAL_STRING", "IDENTIFIER")  # some dialects write struct field names as string keys
    try:
        e0 = fn(API_BASE)
    except Exception as ex:  # noqa
        return None  # the entry point does not exist in this shape on this tree
    try:
        e1 = fn(v)
    except Exception:  # noqa
        return None  # refused: fine
    try:
        base = e0.sql(dialect=d, **opts)
        want = toks_of(d, base)
    except Exception as ex:  # noqa
        return "error", f"{name}: the statement for the harmless value {API_BASE!r} does not generate/lex: {type(ex).__name__}"
    pos = [i for i, (ty, tx) in enumerate(want) if tx.lstrip("#") == API_BASE and ty in types]
    if not pos:
        words = API_BASE.split(" ")
        texts = [tx for _, tx in want]
        if any(texts[i:i + len(words)] == words for i in range(len(texts))):
            try:
                shown = e1.sql(dialect=d, **opts)
            except Exception:  # noqa
                shown = "?"
            return "raw", f"{name}: names are written outside any quoting: {API_BASE!r} -> {base!r}, {v!r} -> {shown!r}"
        # the dialect drops this part of the expression altogether: then nothing of v may show up either
    try:
        sql = e1.sql(dialect=d, **opts)
    except Exception as ex:  # noqa
        return "error", f"{name}: generation raised {type(ex).__name__}: {str(ex)[:80]}"
    try:
        got = toks_of(d, sql)
    except Exception as ex:  # noqa
        return "error", f"{name}: {sql!r} does not lex: {type(ex).__name__}"
    if len(got) != len(want):
        return "extra-tokens", f"{name}: {sql!r} lexes to {len(got)} tokens, the same call with {API_BASE!r} to {len(want)}"
    relaxed = kind == "identifier" and safe_name(v)   # a safe name may be left unquoted (and may then be a keyword token)
    for i, ((ty0, tx0), (ty1, tx1)) in enumerate(zip(want, got)):
        if i in pos:
            marker = tx0[:len(tx0) - len(API_BASE)]
            if marker:
                if (ty1, tx1) != (ty0, marker + v):
                    return "wrong-text", f"{name}: {sql!r}: the name {v!r} lexes back as {ty1} {tx1!r}, not {marker + v!r}"
            elif relaxed:
                if tx1.lower() != v.lower():
                    return "wrong-text", f"{name}: {sql!r}: the name {v!r} lexes back as {tx1!r}"
            elif ty1 != ty0:
                return "extra-tokens", f"{name}: {sql!r}: token {ty1} {tx1!r} where the {ty0} for {v!r} was expected"
            elif tx1 != v:
                return "wrong-text", f"{name}: {sql!r}: {v!r} lexes back as {tx1!r}"
        elif (ty0, tx0) != (ty1, tx1):
            return "extra-tokens", f"{name}: {sql!r}: token {(ty1, tx1)} where {(ty0, tx0)} was expected"
    return None


def consider_api(chk: Check, d, name: str, v: str, opts: dict | None = None) -> bool:
    kind = api_entries()[name][1]
    opts = opts or {}
    if opts.get("pretty") and SENTINEL in v:
        return False
    if not single_ok(d, "string" if kind == "string" else "identifier", v):
        return False  # the per-literal defect is reported by the per-literal oracle
    chk.count("search:api")
    res0 = oracle_api(d, name, v, opts)
    if res0 is None:
        return False
    if res0[0] == "raw":  # independent of v: nothing to minimise
        chk.report_violation(f"api:{name}:raw", f"[{d or 'base'}] builder API {res0[1]}",
                             {"dialect": d, "kind": "api", "entry": name, "value": v, "opts": opts}, {"dialect": d or "base"})
        return True

    def fails(val, o=opts):
        return single_ok(d, "string" if kind == "string" else "identifier", val) and oracle_api(d, name, val, o) is not None

    changed = True
    while changed:
        changed = False
        for size in range(max(1, len(v) - 1), 0, -1):
            for i in range(0, len(v) - size + 1):
                cand = v[:i] + v[i + size:]
                if fails(cand):
                    v, changed = cand, True
                    break
            if changed:
                break
    if opts and fails(v, {}):
        opts = {}
    verdict, what = oracle_api(d, name, v, opts)
    chk.report_violation(f"api:{name}:{verdict}:{skeleton(v)}", f"[{d or 'base'}] builder API {what}",
                         {"dialect": d, "kind": "api", "entry": name, "value": v, "opts": opts}, {"dialect": d or "base"})
    return True


def oracle_reparse(d, v: str):
    """identifier paths beyond identifier_sql: a table / column built from quoted parts named v is written, split again by
    exp.to_table / exp.to_column (the dialect's parser) and written again — the text must be the same and no part may be
    lost or split.  BigQuery splits dotted names inside one pair of backticks by design: excluded."""
    _, exp, *_ = sg()
    d = d or None
    if v == "" or (d == "bigquery" and "." in v):
        return None
    try:
        t = exp.table_(v, db=v, catalog=v, quoted=True)
        c = exp.column(v, table=v, quoted=True)
        ts, cs = t.sql(dialect=d), c.sql(dialect=d)
    except Exception as ex:  # noqa
        return "error", f"generation raised {type(ex).__name__}"
    try:
        t2 = exp.to_table(ts, dialect=d)
        c2 = exp.to_column(cs, dialect=d)
        ts2, cs2 = t2.sql(dialect=d), c2.sql(dialect=d)
    except Exception as ex:  # noqa
        return "error", f"to_table/to_column({ts!r} / {cs!r}) raised {type(ex).__name__}: {str(ex)[:60]}"
    if ts2 != ts or len(list(t2.parts)) != 3:
        return "wrong-text", f"to_table({ts!r}) is written back as {ts2!r}"
    if cs2 != cs:
        return "wrong-text", f"to_column({cs!r}) is written back as {cs2!r}"
    return None


def consider_reparse(chk: Check, d, v: str) -> bool:
    if not single_ok(d, "identifier", v) or oracle_reparse(d, v) is None:
        return False
    changed = True
    while changed:
        changed = False
        for size in range(max(1, len(v) - 1), 0, -1):
            for i in range(0, len(v) - size + 1):
                cand = v[:i] + v[i + size:]
                if single_ok(d, "identifier", cand) and oracle_reparse(d, cand) is not None:
                    v, changed = cand, True
                    break
            if changed:
                break
    verdict, what = oracle_reparse(d, v)
    chk.report_violation(f"reparse:{verdict}:{skeleton(v)}", f"[{d or 'base'}] quoted dotted name: {what}",
                         {"dialect": d, "kind": "reparse", "value": v}, {"dialect": d or "base"})
    return True


API_ADV = ["first name", "a-b", "x, (SELECT secret FROM creds) AS y", 'a"b', "a'b", "a`b", "a]b", "r\n", "a\\", "1x", "select", "a.b", "",
           "a\nb", "$1", "a--b", "a/*b", "é x", "x' OR 1=1 -- ", "\\' OR 1=1 -- ", "*/ x /*", "a;b"]


WITNESSES = [("athena", "string", "a\\"), ("athena", "string", "\\n"), ("clickhouse", "identifier", "a\\"),
             ("clickhouse", "identifier", "\\n"), ("postgres", "byte", "\\"), ("bigquery", "byte", "a\\")]


def search(chk: Check, hints: list, budget_s: float) -> None:
    rng = chk.rng
    t0 = time.time()
    names = dialect_names()
    found = tried = 0
    kindmap = {"str": "string", "id": "identifier", "com": "comment"}
    cands = list(WITNESSES)
    for label, kind, s_ in hints[:50]:
        for one_s in (s_ if isinstance(s_, (list, tuple)) else [s_]):
            if isinstance(one_s, str):
                cands.append(("" if label == "base" else label, kindmap.get(kind, "string"), one_s))
    corpus_dir = os.path.join(os.path.dirname(os.path.dirname(os.path.dirname(os.path.abspath(__file__)))), "corpus", "C04")
    if os.path.isdir(corpus_dir):
        for fn in sorted(os.listdir(corpus_dir)):
            if fn.endswith(".json"):
                for r in json.load(open(os.path.join(corpus_dir, fn))):
                    cands.append((r["dialect"], r["kind"], r["value"]))
    for d, kind, v in cands:
        tried += 1
        found += consider(chk, d, kind, v, {})
    # every dialect: its own delimiters exhaustively to length 2 (quick) / 3, all plain kinds
    per = {}
    for label, rec in chk._c04_table.items():
        a = []
        for kind in ("str", "id"):
            for ok, cfg in rec[kind]:
                for c in alpha_for(cfg):
                    if c not in a:
                        a.append(c)
        per[label] = a
    extras = []
    for label, rec in chk._c04_table.items():
        for kind in ("str", "byte"):
            for ok, cfg in rec[kind]:
                for c in [k for k, _, _ in cfg["escSeq"]] + [v for _, _, v in cfg["unesc"]] + [b for _, b, _ in cfg["unesc"]]:
                    if c not in extras:
                        extras.append(c)
    for c in ["\x07", "\x08", "\x0b", "\x0c", "\x1b", "\x00"]:
        if c not in extras:
            extras.append(c)
    exh = chk.pick(2, 3)
    order = list(names)
    rng.shuffle(order)
    for d in order:
        a = per.get(d or "base", ["'", '"', "\\"])
        for n in range(0, exh + 1):
            for tup in itertools.product(a, repeat=n):
                v = "".join(tup)
                for kind in ["string", "identifier"] + (id_flag_kinds() if n <= 2 else []):
                    if len(chk.violations) >= 5:
                        break
                    tried += 1
                    found += consider(chk, d, kind, v, {})
        # every character that any escape table of any dialect mentions (BEL, VT, NUL, …): alone and next to each delimiter
        for e in extras:
            for v in [e] + [e + x for x in a[:6]] + [x + e for x in a[:6]]:
                for kind in ("string", "identifier"):
                    if len(chk.violations) >= 5:
                        break
                    tried += 1
                    found += consider(chk, d, kind, v, {})
        if time.time() - t0 > budget_s * 0.5:
            chk.note("search: exhaustive phase cut short by the time budget")
            break
        if len(chk.violations) >= 5:
            break
    # statement-level templates: a literal kind that calls escape_str with other arguments first, then an adversarial
    # plain literal (per-instance generator state only shows in compositions), every dialect
    for d in order:
        for spec in stmt_templates(chk.quick):
            if len(chk.violations) >= 5:
                break
            tried += 1
            found += consider_stmt(chk, d, spec)
    # comments at statement level through the dialect's FULL tokenizer (Dialect.tokenize: for tokenizers that override
    # tokenize(), e.g. Athena's routing pass + sub-tokenizer, every pass reads the generated text)
    import sqlglot.tokens as _tokens
    _, _, Dialect, *_ = sg()
    multi = []
    for d in names:
        tkc = Dialect.get_or_raise(d or None).tokenizer_class
        if any("tokenize" in c.__dict__ for c in tkc.__mro__ if c is not _tokens.Tokenizer and issubclass(c, _tokens.Tokenizer)):
            multi.append(d or "base")
    chk.cov["tokenizers_overriding_tokenize"] = multi
    ctexts = ["/*", "*/", "/ *", "* /", "see s3://bucket/*/part", "a /* b */ c", "/*/", "*/*", "/* /*", "x */ y /* z", "/", "*",
              "--", "# x", "// y", "{# z #}", "/*+ h */", "a\n/*\nb"]
    for d in ([x for x in order if (x or "base") in multi] + [x for x in order if (x or "base") not in multi]):
        for ct in ctexts:
            for variant in range(4):
                for opts in ({}, {"pretty": True}):
                    if len(chk.violations) >= 5:
                        break
                    tried += 1
                    found += consider(chk, d, "comment", ct, dict(opts), variant)
    # the builder API: every entry point with the adversarial names/values, every dialect
    api_names = list(api_entries())
    for d in order:
        for v in API_ADV + ["a.b", "x.y.z", ".", "a..b", "a b.c", "#t", "é.x"]:
            if len(chk.violations) < 5:
                tried += 1
                chk.count("search:reparse")
                found += consider_reparse(chk, d, v)
    for d in order:
        for name in api_names:
            for v in (API_ADV[:9] if chk.quick else API_ADV):
                if len(chk.violations) >= 5:
                    break
                tried += 1
                found += consider_api(chk, d, name, v)
    # random phase
    optsets = [{}, {}, {"pretty": True}, {"identify": True}, {"pretty": True, "identify": True}, {"comments": True, "pretty": True}]
    while time.time() - t0 < budget_s and len(chk.violations) < 5:
        d = rng.choice(names)
        if rng.random() < 0.05:
            tried += 1
            chk.count("search:reparse")
            found += consider_reparse(chk, d, rand_text(rng, per.get(d or "base", BASE_ALPHA) + [".", "#", "a"], 8))
            continue
        if rng.random() < 0.2:
            a = per.get(d or "base", BASE_ALPHA)
            v = rng.choice(API_ADV) if rng.random() < 0.3 else rand_text(rng, a if rng.random() < 0.5 else BASE_ALPHA, 16)
            tried += 1
            found += consider_api(chk, d, rng.choice(api_names), v, dict(rng.choice([{}, {}, {"pretty": True}, {"identify": True}])))
            continue
        if rng.random() < 0.35:
            a = per.get(d or "base", BASE_ALPHA)
            spec = rand_stmt_spec(rng, a if rng.random() < 0.5 else BASE_ALPHA)
            tried += 1
            found += consider_stmt(chk, d, spec)
            chk.case(("st", d, json.dumps(spec, sort_keys=True)), nontrivial=True,
                     sample={"dialect": d, "statement": spec} if tried % 2003 == 0 else None)
            continue
        kind = rng.choice(["string", "string", "identifier", "identifier", "national", "raw", "byte", "comment", "comment", "builder", "builder"]
                          + id_flag_kinds())
        a = per.get(d or "base", BASE_ALPHA)
        alpha = a if rng.random() < 0.4 else (["/", "*", " ", "a", "+", "-", "\n", "#", "{", "}"] if kind == "comment" and rng.random() < 0.6 else BASE_ALPHA)
        v = rand_text(rng, alpha, 24)
        opts = dict(rng.choice(optsets))
        variant = rng.randint(0, 3)
        tried += 1
        found += consider(chk, d, kind, v, opts, variant)
        chk.case(("s", d, kind, v, sorted(opts), variant), nontrivial=len(v) > 0,
                 sample={"dialect": d, "kind": kind, "value": v, "opts": opts} if tried % 4001 == 0 else None)
    chk.search_info = {"ran": True, "budget_s": budget_s, "inputs": tried, "violating": found,
                       "oracle": "the generated SQL lexes (the dialect's own tokenizer) to the tokens of the same expression built "
                                 "for the value 'p', with the one literal/identifier token carrying exactly v; a comment leaves "
                                 "the statement's tokens unchanged; statements mixing 2-5 literal kinds (plain/raw/byte/national/"
                                 "unicode/identifier, with comments) in one .sql() call and through one reused Generator instance "
                                 "with pretty toggled between calls: every literal comes back as its own token with its own value"}


def run(chk: Check) -> None:
    chk.trusted.append("C04: hand-written models Model/Str.lean (TokenizerCore._extract_string fast path + slow loop incl. the alnum "
                       "bulk skip, Generator.escape_str / identifier_sql / rawstring_sql / bytestring escape / sanitize_comment / "
                       "maybe_comment plain form, the block-comment loop of _scan_comment) and Model/StrLex.lean (the _scan loop: blank "
                       "skipping, digit / identifier / keyword-trie dispatch to _scan_string, _scan_identifier, _scan_comment, "
                       "multi-character delimiters and raw strings in _extract_string); the rest of the scanner (_scan_number, "
                       "keywords, single tokens, _scan_var, COMMAND re-scan) is a parameter of the token-level theorems and a small "
                       "concrete fragment in the correspondence")
    chk.assumptions += [
        "pretty=False in the model (the __SQLGLOT__LB__ sentinel step of _replace_line_breaks is the identity then; pretty=True is covered by the search, text containing the sentinel excluded: C07)",
        "no escape, delimiter or comment character is alphanumeric for str.isalnum (hypothesis of alnum_skip_sound, which proves the _advance(alnum=True) bulk skip of the string loop a pure optimisation; checked against CPython for every extracted table each run; for the comment loop the same argument is not mechanised)",
        "str.strip() treats neither '/' nor '*' as blank (checked each run)",
        "what follows a literal does not start with its closing delimiter (premise rest.head? != q of the round-trip theorems)",
        "hex / bit / heredoc strings, unicode literals, `{# #}` and hint comments, comment attachment to tokens are not modelled (search oracle only); inputs outside the model's fragment are reported by the model as unsupported and skipped in the token-level correspondence (counted in the evidence)",
        "str.isspace agrees with `strip()` emptiness; no blank character upper-cases to the third character of a trie key extending `/*`; no generator start delimiter is blank (checked against CPython / the extracted tables each run)",
    ]
    chk._c04_table = {}
    chk.write_generated(translate(chk))
    validate_char_assumptions(chk)
    proved = chk.prove(MODULES, "Properties.C04", THEOREMS)
    hints = []
    try:
        hints = correspond(chk)
        correspond_lex(chk)
    except HarnessError as e:
        if proved:
            raise
        chk.note(f"model driver unavailable ({e}); continuing with the search on the real code")
    budget = chk.pick(26, 240)
    if chk.broken:
        budget *= 3
    search(chk, hints, budget)


def replay(path: str) -> int:
    import sys

    sys.path.insert(0, REPO)
    rec = json.load(open(path))
    r = rec.get("replay")
    if not r:
        print(json.dumps(rec, indent=1))
        return 1
    if r.get("kind") == "reparse":
        res = oracle_reparse(r["dialect"], r["value"])
    elif r.get("kind") == "api":
        res = oracle_api(r["dialect"], r["entry"], r["value"], r.get("opts", {}))
    elif r.get("kind") == "statement":
        res = oracle_stmt(r["dialect"], r["spec"])
    else:
        res = oracle(r["dialect"], r["kind"], r["value"], r.get("opts", {}), r.get("variant", 0))
    print("replay:", ("VIOLATES (" + res[0] + "): " + res[1]) if res else "holds")
    return 1 if res else 0
