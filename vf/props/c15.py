"""C15 — Results are deterministic and independent of earlier calls (DESIGN.md §4 C15).

translate : ast of Parser.__init__/reset, TokenizerCore.__init__/reset, Generator.__init__/generate: the fields each
            assigns (with the assigned expression), plus every field some other method of the class (or a dialect
            subclass / module-level generator function) writes or calls as a stateful closure -> Generated/C15.lean
prove     : Properties/C15.lean — (a) Perm-invariance of uniq_sort / tsort / remove_complements for all inputs,
            (b) reset_eq_init decided on the generated lists  =>  reuse = fresh for every history of field writes
correspond: Simplifier.uniq_sort and helper.tsort against the model under explicit permutations of the operand /
            dict order (line protocol)
search    : the property's own oracle on the real code: the same cases in subprocesses under different
            PYTHONHASHSEED and processing orders, byte-compared (parse / sql / transpile / optimize / qualify / annotate /
            lineage / simplify / normalize); a family of order-sensitive cases (near-variant pairs differing only in the case of
            strings / placeholder names / quoted identifiers or in whitespace, direct Generator/Parser/Tokenizer(dialect=…)
            constructions, user-defined Dialect subclasses and settings-string dialects) compared with the result of a
            brand-new process, a differing case is replayed with the minimised history that causes it; fresh vs reused Parser / Tokenizer / Generator / Dialect / MappingSchema
            objects in one process, including reuse after an exception in the middle of a call; interleaved dialects.
            The AST diff's Keep/Move order is excluded as the property says (diff is not called).
"""

from __future__ import annotations

import ast
import glob
import json
import os
import re
import subprocess
import sys
import tempfile
import time

if __name__ != "__main__":
    from vf.core import Check, REPO, HarnessError, lean_str, lean_list

MODULES = ["Model.Determinism", "Proofs.Determinism", "Generated.C15", "Properties.C15"]
NS = "SqlglotModel.Properties.C15."
THEOREMS = [NS + n for n in [
    "sorted_perm_invariant",
    "uniq_sort_perm_invariant",
    "uniq_sort_canonical",
    "tsort_order_independent",
    "remove_complements_perm_invariant",
    "reuse_eq_fresh",
    "parser_reset_eq_init",
    "parser_reuse_eq_fresh",
    "tokenizer_reset_eq_init",
    "tokenizer_reuse_eq_fresh",
    "generator_reset_eq_init_partial",
    "generator_reuse_eq_fresh_partial",
    "generator_next_name_restarts",
    "generator_next_name_snapshot_witness",
    "process_wide_state_ok",
    "keyed_sort_perm_invariant",
    "keyed_sort_needs_injective_key",
    "sort_calls_ok",
    "mutated_class_tables_ok",
    "try_parse_restores_level_all_exits",
    "try_parse_restore_needs_finally",
    "parser_temporary_writes_restored_in_finally",
    "parser_reuse_eq_fresh_all_fields",
    "generator_temporary_writes_restore_places",
    "schema_reuse_eq_fresh",
    "schema_cache_serving_misses_witness",
    "schema_find_cache_shape_ok",
    "embedded_copy_keeps_parses_independent",
    "embedded_constant_is_shared_witness",
    "no_shared_expression_nodes_embedded",
    "build_dispatch_policy_ok",
    "dispatch_order_independent",
    "inherited_dispatch_entry_witness",
    "tsort_inner_order_independent",
    "absorb_order_independent",
    "absorbed_superset_order_independent",
    "cte_dedup_storage_order_independent",
    "process_wide_tables_shape",
    "dispatch_cache_idempotent",
    "registry_lookup_eq_fresh",
    "dialect_instance_reuse_eq_fresh",
    "dialect_settings_order_independent",
]]

# fields a call writes but hands back itself (not through reset): justified next to the theorem that uses them
PARSER_EXEMPT = ["error_level"]          # _try_parse saves / restores it in `finally` (C14.try_parse_restores_level)
TOKENIZER_EXEMPT: list = []
GENERATOR_EXEMPT = ["identify", "_quote_json_path_key_using_brackets"]


# ------------------------------------------------------------------------------------------ translate
def _cls(path, name):
    t = ast.parse(open(os.path.join(REPO, path), encoding="utf-8").read())
    for n in t.body:
        if isinstance(n, ast.ClassDef) and n.name == name:
            return n
    return None


def _assigns(fn):
    out = []
    for s in fn.body:
        tg = val = None
        if isinstance(s, ast.Assign) and len(s.targets) == 1:
            tg, val = s.targets[0], s.value
        elif isinstance(s, ast.AnnAssign) and s.value is not None:
            tg, val = s.target, s.value
        if tg is not None and isinstance(tg, ast.Attribute) and isinstance(tg.value, ast.Name) and tg.value.id == "self":
            out.append((tg.attr, ast.unparse(val)))
    return out


def _written(funcs, skip, init_fields):
    """fields stored (self.f = / += / del) or called as a stored stateful closure (self.f()) outside `skip`"""
    out = set()
    for fn in funcs:
        if fn.name in skip:
            continue
        for n in ast.walk(fn):
            if isinstance(n, ast.Attribute) and isinstance(n.ctx, (ast.Store, ast.Del)) and isinstance(n.value, ast.Name) and n.value.id in ("self", "generator", "parser"):
                out.add(n.attr)
            if isinstance(n, ast.Call) and isinstance(n.func, ast.Attribute) and isinstance(n.func.value, ast.Name) and n.func.value.id == "self" and n.func.attr in init_fields:
                out.add(n.func.attr)
    return sorted(out)


def _all_funcs(paths, class_only=None):
    fs = []
    for p in paths:
        t = ast.parse(open(p, encoding="utf-8").read())
        for n in ast.walk(t):
            if isinstance(n, ast.FunctionDef):
                fs.append(n)
    return fs


def extract(chk=None):
    res = {}

    def broken(what):
        if chk is not None:
            chk.broken.append({"kind": "translator", "what": "C15 translator: structure changed: " + what})

    def methods(c):
        return {f.name: f for f in c.body if isinstance(f, ast.FunctionDef)} if c else {}

    P = methods(_cls("sqlglot/parser.py", "Parser"))
    T = methods(_cls("sqlglot/tokenizer_core.py", "TokenizerCore"))
    G = methods(_cls("sqlglot/generator.py", "Generator"))
    for nm, ms, need in (("Parser", P, ("__init__", "reset", "_parse")), ("TokenizerCore", T, ("__init__", "reset", "tokenize")),
                         ("Generator", G, ("__init__", "generate"))):
        for k in need:
            if k not in ms:
                broken(f"{nm}.{k} not found")
    res["parserInit"] = _assigns(P["__init__"]) if "__init__" in P else []
    res["parserReset"] = _assigns(P["reset"]) if "reset" in P else []
    res["tokenizerInit"] = _assigns(T["__init__"]) if "__init__" in T else []
    res["tokenizerReset"] = _assigns(T["reset"]) if "reset" in T else []
    res["generatorInit"] = _assigns(G["__init__"]) if "__init__" in G else []
    res["generatorReset"] = _assigns(G["generate"]) if "generate" in G else []
    # entry points call the reset first
    def first_call(fn, name):
        for s in fn.body:
            if isinstance(s, ast.Expr) and isinstance(s.value, ast.Constant):
                continue
            return isinstance(s, ast.Expr) and isinstance(s.value, ast.Call) and isinstance(s.value.func, ast.Attribute) and s.value.func.attr == name
        return False
    res["entryResets"] = [
        ("Parser._parse", "true" if "_parse" in P and first_call(P["_parse"], "reset") else "false"),
        ("TokenizerCore.tokenize", "true" if "tokenize" in T and first_call(T["tokenize"], "reset") else "false"),
    ]
    pf = list(P.values()) + _all_funcs(sorted(glob.glob(os.path.join(REPO, "sqlglot", "parsers", "*.py"))))
    res["parserWritten"] = _written([f for f in pf if f.name != "__init__"], ("reset",), {a for a, _ in res["parserInit"]})
    res["tokenizerWritten"] = _written(list(T.values()), ("__init__", "reset"), {a for a, _ in res["tokenizerInit"]})
    gf = list(G.values()) + _all_funcs(sorted(glob.glob(os.path.join(REPO, "sqlglot", "generators", "*.py"))) +
                                       [os.path.join(REPO, "sqlglot", "dialects", "dialect.py"), os.path.join(REPO, "sqlglot", "transforms.py")])
    res["generatorWritten"] = _written([f for f in gf if f.name != "__init__"], (), {a for a, _ in res["generatorInit"]})
    return res


PW_MUT = {"add", "append", "update", "setdefault", "pop", "clear", "extend", "insert", "remove", "discard", "popitem"}


def _local_names(fn):
    names = {a.arg for a in fn.args.args + fn.args.kwonlyargs + fn.args.posonlyargs}
    if fn.args.vararg:
        names.add(fn.args.vararg.arg)
    if fn.args.kwarg:
        names.add(fn.args.kwarg.arg)
    globs = set()
    for n in ast.walk(fn):
        if isinstance(n, ast.Global):
            globs |= set(n.names)
    for n in ast.walk(fn):
        if isinstance(n, ast.Name) and isinstance(n.ctx, ast.Store) and n.id not in globs:
            names.add(n.id)
    return names, globs


def _chain(node):
    parts = []
    while isinstance(node, ast.Attribute):
        parts.append(node.attr)
        node = node.value
    if isinstance(node, ast.Name):
        parts.append(node.id)
    elif isinstance(node, ast.Call) and isinstance(node.func, ast.Name) and node.func.id in ("globals", "type"):
        parts.append(node.func.id + "()")
    else:
        return None
    return list(reversed(parts))


def process_wide_state():
    """every place where code that runs AFTER import writes state shared by the whole process: module-level names mutated
    inside a function, class attributes written through cls / type(self) / ClassName, globals()[...], `global` rebinding,
    functools caches, and anything named *_CACHE.  (file, name, kind, writer)"""
    out = set()
    for path in sorted(glob.glob(os.path.join(REPO, "sqlglot", "**", "*.py"), recursive=True)):
        rel = os.path.relpath(path, REPO)
        t = ast.parse(open(path, encoding="utf-8").read())
        modnames = set()
        for st in t.body:
            if isinstance(st, (ast.Assign, ast.AnnAssign, ast.AugAssign)):
                for n in ast.walk(st):
                    if isinstance(n, ast.Name) and isinstance(n.ctx, ast.Store):
                        modnames.add(n.id)
            if isinstance(st, (ast.Assign, ast.AnnAssign)):
                tg = st.targets[0] if isinstance(st, ast.Assign) else st.target
                if isinstance(tg, ast.Name) and tg.id.upper().endswith("_CACHE"):
                    out.add((rel, tg.id, "named-cache", "<module>"))

        def scan(fn, name):
            loc, globs = _local_names(fn)
            for n in ast.walk(fn):
                tgt = None
                attr_store = False
                if isinstance(n, ast.Subscript) and isinstance(n.ctx, (ast.Store, ast.Del)):
                    tgt = n.value
                elif isinstance(n, ast.Call) and isinstance(n.func, ast.Attribute) and n.func.attr in PW_MUT:
                    tgt = n.func.value
                elif isinstance(n, ast.Attribute) and isinstance(n.ctx, (ast.Store, ast.Del)):
                    tgt, attr_store = n, True
                elif isinstance(n, ast.Name) and isinstance(n.ctx, ast.Store) and n.id in globs:
                    out.add((rel, n.id, "global-rebind", name))
                    continue
                if tgt is None:
                    continue
                ch = _chain(tgt)
                if not ch:
                    continue
                classy = len(ch) >= 2 and (ch[0] in ("cls", "type()") or (ch[0] == "self" and ch[1] == "__class__")
                                           or (ch[0] in modnames and ch[0] not in loc and ch[0][:1].isupper())
                                           or (not attr_store and ch[0] == "klass"))
                if attr_store:
                    if classy:
                        out.add((rel, ".".join(ch), "class-attr", name))
                elif len(ch) == 1 and ch[0] in modnames and ch[0] not in loc:
                    out.add((rel, ch[0], "module-global", name))
                elif ch[0] == "globals()":
                    out.add((rel, "globals()", "module-namespace", name))
                elif classy:
                    out.add((rel, ".".join(ch), "class-attr", name))

        def walk(node, prefix, infn):
            for ch in ast.iter_child_nodes(node):
                if isinstance(ch, (ast.FunctionDef, ast.AsyncFunctionDef)):
                    name = prefix + ch.name
                    for d in ch.decorator_list:
                        dn = d.func if isinstance(d, ast.Call) else d
                        nm = dn.id if isinstance(dn, ast.Name) else dn.attr if isinstance(dn, ast.Attribute) else ""
                        if nm in ("lru_cache", "cache"):
                            out.add((rel, name, "functools." + nm, name))
                    if not infn:
                        scan(ch, name)
                    walk(ch, name + ".", True)
                elif isinstance(ch, ast.ClassDef):
                    for st in ch.body:
                        if isinstance(st, (ast.Assign, ast.AnnAssign)):
                            tg = st.targets[0] if isinstance(st, ast.Assign) else st.target
                            if isinstance(tg, ast.Name) and tg.id.upper().endswith("_CACHE"):
                                out.add((rel, ch.name + "." + tg.id, "named-cache", "<class>"))
                    walk(ch, prefix + ch.name + ".", infn)
                else:
                    walk(ch, prefix, infn)

        walk(t, "", False)
    return sorted(out)


def restore_places(funcs, fields):
    """for every function that assigns `self.F` (F a field that no reset touches): where is the assignment that puts a saved
    value back?  "finally" = inside a `finally:` block (runs on every exit), "plain" = ordinary code (skipped when an
    exception propagates), "none" = the function never restores.  (function, field, place)"""
    out = []
    for name, fn in funcs:
        stores = [n for n in ast.walk(fn) if isinstance(n, ast.Attribute) and isinstance(n.ctx, ast.Store)
                  and isinstance(n.value, ast.Name) and n.value.id in ("self", "generator", "parser") and n.attr in fields]
        for f in sorted({n.attr for n in stores}):
            in_finally = set()
            for t in ast.walk(fn):
                if isinstance(t, ast.Try):
                    for st in t.finalbody:
                        for n in ast.walk(st):
                            if isinstance(n, ast.Attribute) and isinstance(n.ctx, ast.Store) and n.attr == f:
                                in_finally.add(id(n))
            mine = [n for n in stores if n.attr == f]
            place = "finally" if any(id(n) in in_finally for n in mine) else ("plain" if len(mine) >= 2 else "none")
            out.append((name, f, place))
    return sorted(out)


def expression_node_constants():
    """class-level and module-level constants whose value IS (or contains) an Expression NODE: each is process-wide mutable
    state — a tree that embeds the constant itself shares one object with every other tree.  Found by introspection of the
    live classes / modules; for each, the ast of its module says how often it is used WITHOUT `.copy()` / outside
    `replace_placeholders(…)` (which copies).  (module, owner, name, type, uses)"""
    import importlib
    import inspect
    import pkgutil
    import sqlglot
    import sqlglot.optimizer
    from sqlglot import exp
    from sqlglot.dialects.dialect import Dialect
    import sqlglot.dialects as dmod

    def has_node(v, depth=0):
        if isinstance(v, exp.Expr):
            return True
        if depth < 2 and isinstance(v, (list, tuple, set, frozenset)):
            return any(has_node(x, depth + 1) for x in v)
        if depth < 2 and isinstance(v, dict):
            return any(has_node(x, depth + 1) for x in list(v.values()) + list(v.keys()))
        return False

    found = {}
    for d in [None] + sorted(dmod.DIALECT_MODULE_NAMES):
        D = Dialect.get_or_raise(d)
        for cls in (type(D), type(D).parser_class, type(D).generator_class, type(D).tokenizer_class):
            for k in cls.__mro__:
                if not k.__module__.startswith("sqlglot"):
                    continue
                for n, v in vars(k).items():
                    if has_node(v):
                        found[(k.__module__, k.__qualname__, n)] = type(v).__name__
    mods = ["sqlglot.transforms", "sqlglot.parser", "sqlglot.generator", "sqlglot.helper", "sqlglot.schema", "sqlglot.lineage",
            "sqlglot.expressions.core", "sqlglot.expressions.builders", "sqlglot.expressions.datatypes"]
    for pk in ("optimizer", "generators", "parsers", "dialects", "typing"):
        try:
            pkg = importlib.import_module("sqlglot." + pk)
            mods += [f"sqlglot.{pk}.{x.name}" for x in pkgutil.iter_modules(pkg.__path__)]
        except Exception:  # noqa
            pass
    for mn in sorted(set(mods)):
        try:
            mod = importlib.import_module(mn)
        except Exception:  # noqa
            continue
        for n, v in vars(mod).items():
            if n.startswith("__") or inspect.ismodule(v) or inspect.isclass(v) or callable(v):
                continue
            if has_node(v):
                found[(mn, "<module>", n)] = type(v).__name__
    out = []
    for (mn, owner, n), ty in sorted(found.items()):
        path = os.path.join(REPO, *mn.split(".")) + ".py"
        uses = uncopied = 0
        if os.path.exists(path):
            t = ast.parse(open(path, encoding="utf-8").read())
            parents = {}
            for node in ast.walk(t):
                for ch in ast.iter_child_nodes(node):
                    parents[ch] = node
            for node in ast.walk(t):
                hit = (isinstance(node, ast.Name) and node.id == n and isinstance(node.ctx, ast.Load)) or \
                      (isinstance(node, ast.Attribute) and node.attr == n and isinstance(node.ctx, ast.Load))
                if not hit:
                    continue
                uses += 1
                p1 = parents.get(node)
                copied = isinstance(p1, ast.Attribute) and p1.attr in ("copy", "get", "items", "keys", "values")
                if isinstance(p1, ast.Call) and getattr(p1.func, "attr", getattr(p1.func, "id", "")) in ("replace_placeholders", "deepcopy", "copy"):
                    copied = True
                if isinstance(p1, (ast.Dict, ast.Starred)) or (isinstance(p1, ast.Assign) and p1.value is node) or isinstance(p1, ast.AnnAssign):
                    copied = True  # re-exported / merged into another table, not embedded into a tree
                if not copied:
                    uncopied += 1
        out.append((mn, owner, n, ty, f"uses={uses} uncopied={uncopied}"))
    return out


def schema_find_shape(chk=None):
    """MappingSchema.find: the cache key, how the cache is read, under which condition a cached value is returned and what
    is stored — one line per statement (`depth:` + source text of the statement head)"""
    C = _cls("sqlglot/schema.py", "MappingSchema")
    fn = next((f for f in (C.body if C else []) if isinstance(f, ast.FunctionDef) and f.name == "find"), None)
    out = []
    if fn is None:
        if chk is not None:
            chk.broken.append({"kind": "translator", "what": "C15 translator: structure changed: MappingSchema.find not found"})
        return ["<missing>"]

    def walk(stmts, d):
        for st in stmts:
            if isinstance(st, ast.Expr) and isinstance(st.value, ast.Constant) and isinstance(st.value.value, str):
                continue
            if isinstance(st, ast.If):
                out.append(f"{d}:if {ast.unparse(st.test)}")
                walk(st.body, d + 1)
                if st.orelse:
                    out.append(f"{d}:else")
                    walk(st.orelse, d + 1)
            elif isinstance(st, (ast.For, ast.While, ast.Try, ast.With)):
                out.append(f"{d}:{type(st).__name__.lower()}")
                walk(getattr(st, "body", []), d + 1)
            else:
                txt = " ".join(ast.unparse(st).split())
                out.append(f"{d}:{txt[:110]}")
    walk(fn.body, 0)
    return out


def dialect_fields(chk=None):
    """Dialect.__init__'s assignments and the instance fields any other method of a dialect class writes"""
    init, written = [], set()
    for path in sorted(glob.glob(os.path.join(REPO, "sqlglot", "dialects", "*.py"))):
        t = ast.parse(open(path, encoding="utf-8").read())
        for c in t.body:
            if not isinstance(c, ast.ClassDef):
                continue
            for fn in c.body:
                if not isinstance(fn, ast.FunctionDef):
                    continue
                for n in ast.walk(fn):
                    if isinstance(n, ast.Attribute) and isinstance(n.ctx, (ast.Store, ast.Del)) and isinstance(n.value, ast.Name) and n.value.id == "self":
                        if fn.name == "__init__":
                            if c.name == "Dialect":
                                par = next((a for a in ast.walk(fn) if isinstance(a, (ast.Assign, ast.AnnAssign)) and
                                            n in ast.walk(a.targets[0] if isinstance(a, ast.Assign) else a.target)), None)
                                init.append((n.attr, ast.unparse(par.value) if par is not None and par.value is not None else "?"))
                        else:
                            written.add(f"{c.name}.{fn.name}:{n.attr}")
    if not init and chk is not None:
        chk.broken.append({"kind": "translator", "what": "C15 translator: structure changed: Dialect.__init__ assigns nothing"})
    return init, sorted(written)


def dispatch_fill_shape(chk=None):
    """the fill of _DISPATCH_CACHE in Generator.__init__: `v = C.get(k)`; `if v is None:` `v = build(k)`; `C[k] = v`"""
    G = _cls("sqlglot/generator.py", "Generator")
    fn = next((f for f in (G.body if G else []) if isinstance(f, ast.FunctionDef) and f.name == "__init__"), None)
    out = []
    if fn is not None:
        for st in ast.walk(fn):
            if isinstance(st, ast.Assign) and isinstance(st.value, ast.Call) and isinstance(st.value.func, ast.Attribute) \
                    and st.value.func.attr == "get" and isinstance(st.value.func.value, ast.Name) and st.value.func.value.id == "_DISPATCH_CACHE":
                out.append("lookup:" + ast.unparse(st.targets[0]) + "=_DISPATCH_CACHE.get(" + ",".join(ast.unparse(a) for a in st.value.args) + ")")
            if isinstance(st, ast.If) and any(isinstance(x, ast.Subscript) and isinstance(x.value, ast.Name) and x.value.id == "_DISPATCH_CACHE"
                                              for x in ast.walk(st)):
                out.append("if:" + ast.unparse(st.test))
                for b in st.body:
                    out.append("then:" + ast.unparse(b))
                if st.orelse:
                    out.append("else:" + ";".join(ast.unparse(b) for b in st.orelse))
    if not out and chk is not None:
        chk.broken.append({"kind": "translator", "what": "C15 translator: structure changed: _DISPATCH_CACHE fill not found in Generator.__init__"})
    return out


TABLE_MUT = {"pop", "update", "discard", "add", "append", "extend", "insert", "remove", "clear", "setdefault", "popitem"}
UPPER_RE = re.compile(r"^_?[A-Z][A-Z0-9_]*$")


def mutated_class_tables():
    """class-level / module-level tables (UPPER_CASE names) that are MUTATED after they were created: `.pop(` / `.update(` /
    `x[...] =` / `del x[...]` … on anything but the scope's own fresh object.  (file, where, target, how).  A table shared
    between classes or modules and mutated at some later time makes results depend on what was imported / called first."""
    out = set()

    def chain(node):
        parts = []
        while isinstance(node, ast.Attribute):
            parts.append(node.attr)
            node = node.value
        if not isinstance(node, ast.Name):
            return None
        parts.append(node.id)
        return list(reversed(parts))

    def own_names(body):
        """names bound in this scope to a FRESH object (an alias `X = Other.X` is not the scope's own object)"""
        names = set()
        for st in body:
            if isinstance(st, (ast.Assign, ast.AnnAssign, ast.AugAssign)):
                if isinstance(getattr(st, "value", None), (ast.Name, ast.Attribute)):
                    continue
                for tg in (st.targets if isinstance(st, ast.Assign) else [st.target]):
                    for n in ast.walk(tg):
                        if isinstance(n, ast.Name) and isinstance(n.ctx, ast.Store):
                            names.add(n.id)
        return names

    for path in sorted(glob.glob(os.path.join(REPO, "sqlglot", "**", "*.py"), recursive=True)):
        rel = os.path.relpath(path, REPO)
        t = ast.parse(open(path, encoding="utf-8").read())

        def shallow_names(body):
            """names bound to `{**Other.TABLE, …}`: a NEW dict whose VALUES are still the other table's objects"""
            names = set()
            for st in body:
                if isinstance(st, (ast.Assign, ast.AnnAssign)) and isinstance(st.value, ast.Dict):
                    if any(k is None and isinstance(v, (ast.Name, ast.Attribute)) for k, v in zip(st.value.keys, st.value.values)):
                        for tg in (st.targets if isinstance(st, ast.Assign) else [st.target]):
                            if isinstance(tg, ast.Name):
                                names.add(tg.id)
            return names

        def scan_shallow(stmts, where):
            """`NAME[k] |= …` / `NAME[k].update(…)` on a shallow copy mutates the value shared with the table it was copied from"""
            sh = shallow_names(stmts)
            for st in stmts:
                for n in ast.walk(st):
                    sub = None
                    if isinstance(n, ast.AugAssign) and isinstance(n.target, ast.Subscript):
                        sub, how = n.target, "aug:" + type(n.op).__name__
                    elif isinstance(n, ast.Call) and isinstance(n.func, ast.Attribute) and n.func.attr in TABLE_MUT and isinstance(n.func.value, ast.Subscript):
                        sub, how = n.func.value, n.func.attr
                    if sub is not None and isinstance(sub.value, ast.Name) and sub.value.id in sh and UPPER_RE.match(sub.value.id):
                        out.add((rel, where.rstrip(".") or "<module>", sub.value.id + "[" + ast.unparse(sub.slice) + "]", how + "-on-shallow-copy"))

        def scan_nodes(root, where, own):
            for n in ast.walk(root):
                tgt = how = None
                if isinstance(n, ast.Call) and isinstance(n.func, ast.Attribute) and n.func.attr in TABLE_MUT:
                    tgt, how = n.func.value, n.func.attr
                elif isinstance(n, ast.Subscript) and isinstance(n.ctx, (ast.Store, ast.Del)):
                    tgt, how = n.value, "setitem" if isinstance(n.ctx, ast.Store) else "delitem"
                elif isinstance(n, ast.Attribute) and isinstance(n.ctx, (ast.Store, ast.Del)) and UPPER_RE.match(n.attr):
                    # `other_cls.TABLE = …`: a table of ANOTHER class replaced after that class was created (the class under
                    # construction — klass / cls — and instances — self — are not "another class")
                    c0 = chain(n)
                    if c0 and len(c0) >= 2 and c0[0] not in ("klass", "cls", "self", "mcs"):
                        out.add((rel, where, ".".join(c0), "rebind"))
                    continue
                if tgt is None:
                    continue
                ch = chain(tgt)
                if not ch or not UPPER_RE.match(ch[-1]) or (len(ch) == 1 and ch[0] in own):
                    continue
                out.add((rel, where, ".".join(ch), how))

        def scan(stmts, where, own):
            for st in stmts:
                if isinstance(st, (ast.FunctionDef, ast.AsyncFunctionDef)):
                    loc = {n.id for n in ast.walk(st) if isinstance(n, ast.Name) and isinstance(n.ctx, ast.Store)}
                    scan_nodes(st, where + st.name, loc)
                elif isinstance(st, ast.ClassDef):
                    scan_shallow(st.body, where + st.name + ".")
                    scan(st.body, where + st.name + ".", own_names(st.body))
                else:
                    scan_nodes(st, where.rstrip(".") or "<module>", own)

        scan_shallow(t.body, "")
        scan(t.body, "", own_names(t.body))
    return sorted(out)


SORT_FILES = ["sqlglot/helper.py", "sqlglot/optimizer/simplify.py", "sqlglot/optimizer/optimize_joins.py",
              "sqlglot/optimizer/eliminate_subqueries.py", "sqlglot/optimizer/normalize.py", "sqlglot/optimizer/merge_subqueries.py",
              "sqlglot/optimizer/eliminate_joins.py", "sqlglot/optimizer/scope.py"]


def sort_calls():
    """every sorted(…) / .sort(…) / min / max with a key in the modules whose algorithms order sets: (file, function, what is
    sorted, key= argument or "-", reverse= or "-").  A key that is not injective on the sorted elements lets ties fall back
    to the (hash-dependent) arrival order — `Properties.C15.keyed_sort_needs_injective_key`."""
    out = []
    for rel in SORT_FILES:
        path = os.path.join(REPO, rel)
        if not os.path.exists(path):
            continue
        t = ast.parse(open(path, encoding="utf-8").read())

        def walk(node, prefix):
            for ch in ast.iter_child_nodes(node):
                if isinstance(ch, (ast.FunctionDef, ast.AsyncFunctionDef, ast.ClassDef)):
                    walk(ch, prefix + ch.name + ".")
                    continue
                if isinstance(ch, ast.Call):
                    f = ch.func
                    nm = f.id if isinstance(f, ast.Name) else f.attr if isinstance(f, ast.Attribute) else ""
                    kw = {k.arg: ast.unparse(k.value) for k in ch.keywords if k.arg}
                    if nm == "sorted" or (nm == "sort" and isinstance(f, ast.Attribute)) or (nm in ("min", "max") and "key" in kw):
                        what = ast.unparse(ch.args[0]) if ch.args else (ast.unparse(f.value) if isinstance(f, ast.Attribute) else "?")
                        out.append((rel, prefix.rstrip(".") or "<module>", nm + "(" + what[:60] + ")", kw.get("key", "-"), kw.get("reverse", "-")))
                walk(ch, prefix)
        walk(t, "")
    return out


def build_dispatch_shape(chk=None):
    """generator._build_dispatch(cls): statement heads, plus which names it reads — the table stored under a class key must be
    computed from THAT class (cls.TRANSFORMS, dir(cls), getattr(cls, …)), never taken from another class's cache entry"""
    path = os.path.join(REPO, "sqlglot", "generator.py")
    t = ast.parse(open(path, encoding="utf-8").read())
    fn = next((n for n in t.body if isinstance(n, ast.FunctionDef) and n.name == "_build_dispatch"), None)
    if fn is None:
        if chk is not None:
            chk.broken.append({"kind": "translator", "what": "C15 translator: structure changed: generator._build_dispatch not found"})
        return ["<missing>"]
    out = []

    def walk(stmts, d):
        for st in stmts:
            if isinstance(st, ast.Expr) and isinstance(st.value, ast.Constant) and isinstance(st.value.value, str):
                continue
            if isinstance(st, ast.If):
                out.append(f"{d}:if {' '.join(ast.unparse(st.test).split())[:100]}")
                walk(st.body, d + 1)
                if st.orelse:
                    out.append(f"{d}:else")
                    walk(st.orelse, d + 1)
            elif isinstance(st, ast.For):
                out.append(f"{d}:for {ast.unparse(st.target)} in {ast.unparse(st.iter)}")
                walk(st.body, d + 1)
            else:
                out.append(f"{d}:{' '.join(ast.unparse(st).split())[:110]}")
    walk(fn.body, 0)
    names = {n.id for n in ast.walk(fn) if isinstance(n, ast.Name)} | {n.attr for n in ast.walk(fn) if isinstance(n, ast.Attribute)}
    out.append("reads _DISPATCH_CACHE: " + ("yes" if "_DISPATCH_CACHE" in names else "no"))
    out.append("reads another class (__mro__/__bases__/mro/super): " + ("yes" if names & {"__mro__", "__bases__", "mro", "super", "__base__"} else "no"))
    return out


def internal_subclasses():
    """Generator / Parser subclasses of the library that are NOT the generator_class / parser_class of a registered dialect
    (Athena's internal Hive / Trino engines): (kind, module, class, parent dialect, host dialect, overridden methods)"""
    import sqlglot.dialects as dmod
    from sqlglot.dialects.dialect import Dialect
    from sqlglot.generator import Generator
    from sqlglot.parser import Parser
    reg = {}
    for d in sorted(dmod.DIALECT_MODULE_NAMES):
        D = type(Dialect.get_or_raise(d))
        reg[D.generator_class] = d
        reg[D.parser_class] = d

    def subs(c):
        out = []
        for x in c.__subclasses__():
            out.append(x)
            out += subs(x)
        return out

    res = []
    for kind, base in (("generator", Generator), ("parser", Parser)):
        for c in subs(base):
            if c in reg or not c.__module__.startswith("sqlglot"):
                continue
            parent = next((reg[b] for b in c.__mro__[1:] if b in reg), None)
            host = c.__module__.rsplit(".", 1)[-1]
            ov = sorted(n for n in vars(c) if n.endswith("_sql") or n.startswith("_parse_"))
            res.append((kind, c.__module__, c.__qualname__, parent or "", host, ov))
    return sorted(res)


# a statement per method an internal sub-generator / sub-parser may override (extended when a new override appears)
OVERRIDE_SQL = {
    "alter_sql": ["ALTER TABLE foo ADD COLUMN id INT", "ALTER TABLE foo ADD COLUMNS (a INT, b STRING)", "ALTER TABLE foo DROP COLUMN a"],
    "create_sql": ["CREATE TABLE foo (a INT)", "CREATE EXTERNAL TABLE foo (a INT) LOCATION 's3://b/'"],
    "select_sql": ["SELECT a FROM foo"],
    "drop_sql": ["DROP TABLE foo"],
    "_parse_statement": ["SELECT 1"],
}


def override_coverage(chk):
    """run the override statements through the host dialect with a call tracer on each overridden method"""
    import importlib
    import sqlglot
    cov = {}
    for kind, mod, cls, parent, host, ov in internal_subclasses():
        C = getattr(importlib.import_module(mod), cls.split(".")[-1], None)
        for name in ov:
            key = f"{cls}.{name}"
            cov[key] = 0
            orig = getattr(C, name)

            def wrapped(self, *a, __o=orig, __k=key, **k):
                cov[__k] += 1
                return __o(self, *a, **k)

            setattr(C, name, wrapped)
            try:
                for q in OVERRIDE_SQL.get(name, []):
                    try:
                        sqlglot.transpile(q, read=host, write=host)
                    except Exception:  # noqa
                        pass
            finally:
                setattr(C, name, orig)
    chk.cov["internal_subclasses"] = [list(x[:5]) + [x[5]] for x in internal_subclasses()]
    chk.cov["internal_override_coverage"] = {"calls": cov, "unreached": sorted(k for k, v in cov.items() if not v)}
    return cov


def translate(chk) -> str:
    r = extract(chk)
    chk.cov["state_fields"] = {k: len(v) for k, v in r.items()}
    L = ["-- GENERATED by vf/props/c15.py (ast of Parser.__init__/reset, TokenizerCore.__init__/reset, Generator.__init__/generate). Do not edit.",
         "namespace SqlglotModel.Generated.C15"]
    for k in ("parserInit", "parserReset", "tokenizerInit", "tokenizerReset", "generatorInit", "generatorReset", "entryResets"):
        L.append(f"def {k} : List (String × String) := " + lean_list("(" + lean_str(a) + ", " + lean_str(b) + ")" for a, b in r[k]))
    for k in ("parserWritten", "tokenizerWritten", "generatorWritten"):
        L.append(f"def {k} : List String := " + lean_list(lean_str(a) for a in r[k]))
    # fields that the per-call reset does not touch, and how the methods that overwrite them temporarily hand them back
    P = _cls("sqlglot/parser.py", "Parser")
    pfuncs = [("Parser." + f.name, f) for f in (P.body if P else []) if isinstance(f, ast.FunctionDef) and f.name not in ("__init__", "reset")]
    for path in sorted(glob.glob(os.path.join(REPO, "sqlglot", "parsers", "*.py"))):
        for c in ast.parse(open(path, encoding="utf-8").read()).body:
            if isinstance(c, ast.ClassDef):
                pfuncs += [(c.name + "." + f.name, f) for f in c.body if isinstance(f, ast.FunctionDef) and f.name != "__init__"]
    pconfig = {a for a, _ in r["parserInit"]} - {a for a, _ in r["parserReset"]}
    G = _cls("sqlglot/generator.py", "Generator")
    gfuncs = [("Generator." + f.name, f) for f in (G.body if G else []) if isinstance(f, ast.FunctionDef) and f.name not in ("__init__", "generate")]
    for path in sorted(glob.glob(os.path.join(REPO, "sqlglot", "generators", "*.py"))):
        for c in ast.walk(ast.parse(open(path, encoding="utf-8").read())):
            if isinstance(c, ast.FunctionDef) and c.name != "__init__":
                gfuncs.append((os.path.basename(path)[:-3] + ":" + c.name, c))
    gconfig = {a for a, _ in r["generatorInit"]} - {a for a, _ in r["generatorReset"]}
    for nm, rows in (("parserRestorePlaces", restore_places(pfuncs, pconfig)), ("generatorRestorePlaces", restore_places(gfuncs, gconfig))):
        L.append(f"def {nm} : List (String × String × String) := " + lean_list("(" + ", ".join(lean_str(x) for x in e) + ")" for e in rows))
    nc = expression_node_constants()
    chk.cov["expression_node_constants"] = len(nc)
    L.append("/-- (module, owner, name, type, uses): constants that hold Expression nodes -/")
    L.append("def expressionNodeConstants : List (String × String × String × String × String) := [")
    L += ["  (" + ", ".join(lean_str(x) for x in e) + ")" + ("," if i + 1 < len(nc) else "") for i, e in enumerate(nc)]
    L.append("]")
    L.append("def schemaFindShape : List String := " + lean_list(lean_str(a) for a in schema_find_shape(chk)))
    dinit, dwritten = dialect_fields(chk)
    L.append("def dialectInit : List (String × String) := " + lean_list("(" + lean_str(a) + ", " + lean_str(b) + ")" for a, b in dinit))
    L.append("def dialectWritten : List String := " + lean_list(lean_str(a) for a in dwritten))
    L.append("def dispatchCacheFill : List String := " + lean_list(lean_str(a) for a in dispatch_fill_shape(chk)))
    L.append("def buildDispatchShape : List String := " + lean_list(lean_str(a) for a in build_dispatch_shape(chk)))
    mt = mutated_class_tables()
    chk.cov["mutated_class_tables"] = len(mt)
    L.append("/-- (file, where, target, how): UPPER_CASE tables mutated after their creation -/")
    L.append("def mutatedClassTables : List (String × String × String × String) := [")
    L += ["  (" + ", ".join(lean_str(x) for x in e) + ")" + ("," if i + 1 < len(mt) else "") for i, e in enumerate(mt)]
    L.append("]")
    sc = sort_calls()
    chk.cov["sort_calls"] = len(sc)
    L.append("/-- (file, function, call, key=, reverse=): the sort calls of the modules whose algorithms put sets into an order -/")
    L.append("def sortCalls : List (String × String × String × String × String) := [")
    L += ["  (" + ", ".join(lean_str(x) for x in e) + ")" + ("," if i + 1 < len(sc) else "") for i, e in enumerate(sc)]
    L.append("]")
    pw = process_wide_state()
    chk.cov["process_wide_state_sites"] = len(pw)
    L.append("/-- (file, name, kind, writer): state shared by the whole process that code running after import writes -/")
    L.append("def processWideState : List (String × String × String × String) := [")
    L += ["  (" + ", ".join(lean_str(x) for x in e) + ")" + ("," if i + 1 < len(pw) else "") for i, e in enumerate(pw)]
    L.append("]")
    L += ["end SqlglotModel.Generated.C15", ""]
    return "\n".join(L)


# ------------------------------------------------------------------------------------------ correspondence
def correspond(chk) -> list:
    from sqlglot import exp
    from sqlglot.helper import tsort
    from sqlglot.optimizer.simplify import Simplifier

    rng = chk.rng
    simp = Simplifier()
    lines, expect, meta = [], [], []
    n = chk.pick(600, 8000)
    for i in range(n):
        if i % 2 == 0:
            k = rng.choice([2, 2, 3, 3, 4, 5, 6])
            xs = [rng.randrange(rng.choice([1, 2, 3, 6])) for _ in range(k)]
            kind = rng.choice(["and", "or", "xor"])
            cols = [exp.column(f"c{x:02d}") for x in xs]
            e = cols[0]
            for c in cols[1:]:
                e = {"and": exp.And, "or": exp.Or, "xor": exp.Xor}[kind](this=e, expression=c)
            try:
                r = simp.uniq_sort(e)
                ops = list(r.flatten()) if isinstance(r, exp.Connector) else [r]
                keys = [int(o.name[1:]) for o in ops if isinstance(o, exp.Column)]
                plus = any(isinstance(o, exp.Boolean) for o in ops)
                got = f"keys={keys} true={plus}"
            except Exception as ex:  # noqa
                got = "exc " + type(ex).__name__
            lines.append(json.dumps({"op": "uniq", "xor": kind == "xor", "xs": xs}))
            expect.append(got)
            meta.append(("uniq_sort", kind, xs))
            chk.count("corr:uniq_sort:" + kind)
            chk.case(("uniq", kind, xs), nontrivial=len(set(xs)) < len(xs) or xs != sorted(xs))
        else:
            nn = rng.randint(1, 7)
            nodes = list(range(nn + rng.choice([0, 0, 2])))
            dag = []
            for v in range(nn):
                deps = [w for w in nodes if w != v and rng.random() < 0.25 and (w < v or rng.random() < 0.08)]
                rng.shuffle(deps)
                dag.append([v, deps])
            rng.shuffle(dag)
            d = {f"n{v:02d}": {f"n{w:02d}" for w in deps} for v, deps in dag}
            try:
                got = str([int(x[1:]) for x in tsort(d)])
            except ValueError:
                got = "cycle"
            lines.append(json.dumps({"op": "tsort", "dag": dag}))
            expect.append(got)
            meta.append(("tsort", None, dag))
            chk.count("corr:tsort:" + ("cycle" if got == "cycle" else "ok"))
            chk.case(("tsort", dag), nontrivial=nn > 1)
    for i in range(n // 3):
        # A OR (A AND B) -> A : connector of columns and of AND-groups of columns; which operands get absorbed
        kind_or = rng.random() < 0.5
        k = rng.randint(2, 5)
        ops = []
        for _ in range(k):
            if rng.random() < 0.45:
                ops.append([[rng.randrange(5)], False])
            else:
                lits = rng.sample(range(5), rng.randint(2, 3))
                ops.append([lits, True])
        def mk(lits, dual):
            cols = [exp.column(f"c{x}") for x in lits]
            e = cols[0]
            for c in cols[1:]:
                e = (exp.And if kind_or else exp.Or)(this=e, expression=c)
            return exp.Paren(this=e) if dual and len(cols) > 1 else e
        parts = [mk(l, d) for l, d in ops]
        e = parts[0]
        for c in parts[1:]:
            e = (exp.Or if kind_or else exp.And)(this=e, expression=c)
        try:
            r = simp.absorb_and_eliminate(e)
            flat = list(r.flatten()) if isinstance(r, exp.Connector) else [r]
            got_ = "[" + ", ".join("true" if isinstance(o.unnest(), exp.Boolean) else "false" for o in flat) + "]"
            if len(flat) != len(ops):
                got_ = f"shape {len(flat)}"
        except Exception as ex:  # noqa
            got_ = "exc " + type(ex).__name__
        lines.append(json.dumps({"op": "absorb", "ops": ops}))
        expect.append(got_)
        meta.append(("absorb_and_eliminate", "or" if kind_or else "and", ops))
        chk.count("corr:absorb")
        chk.case(("absorb", kind_or, ops), nontrivial="true" in got_)
    got = chk.driver("C15", lines)
    chk.corr_cases += len(lines)
    bad = []
    for g, e, m in zip(got, expect, meta):
        if g != e:
            chk.correspondence_broken(m[0] + " vs model", {"input": m[2], "kind": m[1], "model": g, "impl": e})
            bad.append(m)
    return bad


# ------------------------------------------------------------------------------------------ worker (subprocess side)
SCHEMA = {"x": {"a": "INT", "b": "INT", "c": "TEXT"}, "y": {"a": "INT", "b": "INT", "d": "DATE"}, "z": {"a": "INT", "e": "DOUBLE"}}


_CUSTOM: dict = {}


def custom_dialect(which):
    """user-defined dialects (harness side): they share generator / parser / tokenizer classes with a built-in dialect but
    differ in their tables, or are given as settings strings"""
    if which in _CUSTOM:
        return _CUSTOM[which]
    from sqlglot.dialects.dialect import Dialect
    from sqlglot.dialects.mysql import MySQL
    from sqlglot.dialects.postgres import Postgres
    from sqlglot.dialects.duckdb import DuckDB
    from sqlglot import generator as G

    if which.startswith("settings:"):
        d = Dialect.get_or_raise(which[len("settings:"):])
    elif which == "mysql_dq":       # MySQL's generator class, but identifiers are double-quoted
        class MySqlDQ(MySQL):
            class Tokenizer(MySQL.Tokenizer):
                IDENTIFIERS = ['"']
                QUOTES = ["'"]
        d = MySqlDQ
    elif which == "pg_bt":          # Postgres' generator class, but identifiers use backticks and backslash escapes
        class PgBT(Postgres):
            class Tokenizer(Postgres.Tokenizer):
                IDENTIFIERS = ["`"]
                STRING_ESCAPES = ["\\", "'"]
        d = PgBT
    elif which == "base_bt":        # the base Generator / Parser classes with a backtick tokenizer
        class BaseBT(Dialect):
            class Tokenizer(Dialect.tokenizer_class):
                IDENTIFIERS = ["`"]
        d = BaseBT
    elif which == "duck_gen":       # only the Generator is overridden
        class DuckGen(DuckDB):
            class Generator(DuckDB.Generator):
                NULL_ORDERING_SUPPORTED = None
        d = DuckGen
    else:
        raise ValueError(which)
    _CUSTOM[which] = d
    return d


def run_case(op, a):
    import sqlglot
    from sqlglot import exp, parse_one
    from sqlglot.optimizer import optimize
    from sqlglot.optimizer.qualify import qualify
    from sqlglot.optimizer.annotate_types import annotate_types
    from sqlglot.optimizer.simplify import simplify
    from sqlglot.optimizer.normalize import normalize
    from sqlglot.lineage import lineage

    if op == "parse":
        return json.dumps(parse_one(a["sql"], read=a.get("read")).dump(), sort_keys=False)
    if op == "sql":
        return parse_one(a["sql"], read=a.get("read")).sql(dialect=a.get("write"), pretty=a.get("pretty", False))
    if op == "transpile":
        return "\n;".join(sqlglot.transpile(a["sql"], read=a.get("read"), write=a.get("write"), pretty=a.get("pretty", False)))
    if op == "optimize":
        return optimize(parse_one(a["sql"]), schema=SCHEMA).sql(pretty=True)
    if op == "qualify":
        return qualify(parse_one(a["sql"]), schema=SCHEMA).sql()
    if op == "annotate":
        e = annotate_types(qualify(parse_one(a["sql"]), schema=SCHEMA), schema=SCHEMA)
        return "|".join(f"{type(n).__name__}:{n.type.sql() if n.type else None}" for n in e.walk())
    if op == "lineage":
        node = lineage(a["col"], a["sql"], schema=SCHEMA)
        return "|".join(f"{n.name}<-{n.source.sql()}<-{n.expression.sql()}" for n in node.walk())
    if op == "simplify":
        return simplify(parse_one(a["sql"])).sql()
    if op == "gen_direct":      # the Generator class instantiated directly with a dialect argument
        from sqlglot.generator import Generator
        return Generator(dialect=a.get("write"), identify=True).generate(parse_one(a["sql"]))
    if op == "parser_direct":
        from sqlglot.parser import Parser
        from sqlglot.tokens import Tokenizer
        toks = Tokenizer(dialect=a.get("read")).tokenize(a["sql"])
        trees = Parser(dialect=a.get("read")).parse(toks, a["sql"])
        return json.dumps([[t.token_type.name, t.text] for t in toks]) + json.dumps([t.dump() if t else None for t in trees])
    if op == "custom":
        d = custom_dialect(a["which"])
        e = parse_one(a["sql"], read=d)
        return e.sql(dialect=d, identify=True) + " || " + e.sql(dialect=d) + " || " + str(sqlglot.transpile(a["sql"], read=d, write=d))
    if op == "parse_mutate":   # parse, then edit the returned tree IN PLACE the way callers do
        from sqlglot.optimizer.normalize_identifiers import normalize_identifiers
        tree = parse_one(a["sql"], read=a.get("read"))
        for d in ("snowflake", "oracle"):
            try:
                normalize_identifiers(tree, dialect=d)
            except Exception:  # noqa
                pass
        try:
            qualify(tree, dialect="snowflake", validate_qualify_columns=False)
        except Exception:  # noqa
            pass
        for node in list(tree.find_all(exp.Identifier)):
            node.set("this", str(node.this).upper())
        return tree.sql(dialect=a.get("read"))
    if op == "pair":    # use dialect `first` (if any), then answer a fixed corpus with dialect `second`
        outs = []
        if a.get("first") == "*":   # every dialect module imported, every dialect class created and used once
            from sqlglot.dialects.dialect import Dialect
            import sqlglot.dialects as dmod
            for name in sorted(dmod.DIALECT_MODULE_NAMES):
                try:
                    Dialect.get_or_raise(name).generate(parse_one("SELECT 1"))
                except Exception:  # noqa
                    pass
        elif a.get("first"):
            for q in a["corpus"]:
                try:
                    sqlglot.transpile(q, read=a["first"], write=a["first"])
                except Exception:  # noqa
                    pass
        for q in a["corpus"]:
            try:
                outs.append(" ;; ".join(sqlglot.transpile(q, read=None, write=a["second"])))
            except Exception as e:  # noqa
                outs.append("EXC:" + type(e).__name__)
            try:
                outs.append(parse_one(q, read=a["second"]).sql(dialect=a["second"]))
            except Exception as e:  # noqa
                outs.append("EXC:" + type(e).__name__)
            try:
                e2 = annotate_types(parse_one(q, read=a["second"]), dialect=a["second"])
                outs.append("types:" + ",".join(x.type.sql() if x.type else "?" for x in getattr(e2, "selects", [])))
            except Exception as e:  # noqa
                outs.append("EXC:" + type(e).__name__)
        return "\n".join(outs)
    if op == "dialect_settings":   # settings-string dialects; here the error TEXT counts as the answer
        from sqlglot.dialects.dialect import Dialect
        try:
            d = Dialect.get_or_raise(a["spec"])
        except ValueError as e:
            return "ValueError:" + str(e)
        return f"{type(d).__name__}|{d.normalization_strategy}|{d.version}|{sorted(d.settings.items())}"
    if op == "tsort":
        from sqlglot.helper import tsort
        try:
            return ",".join(tsort({k: set(v) for k, v in a["dag"]}))
        except ValueError:
            return "cycle"
    if op in ("cnf", "dnf"):
        return normalize(parse_one(a["sql"]), dnf=op == "dnf", max_distance=200).sql()
    raise ValueError(op)


def worker_main(spec_path):
    import logging
    logging.getLogger("sqlglot").setLevel(logging.CRITICAL)
    import signal

    class _Timeout(Exception):
        pass

    def _alarm(signum, frame):
        raise _Timeout()

    signal.signal(signal.SIGALRM, _alarm)
    spec = json.load(open(spec_path))
    out = {}
    for idx in spec["order"]:
        cid, op, a = spec["cases"][idx]
        signal.setitimer(signal.ITIMER_REAL, 8.0)
        try:
            out[cid] = run_case(op, a)
        except _Timeout:
            out[cid] = "EXC:Timeout"
        except RecursionError:
            out[cid] = "EXC:RecursionError"
        except Exception as e:  # noqa
            out[cid] = "EXC:" + type(e).__name__
        finally:
            signal.setitimer(signal.ITIMER_REAL, 0)
    json.dump(out, sys.stdout)


def forkserver_main(spec_path):
    """imports sqlglot once, then answers every group of cases in a freshly forked child: each child starts from the state
    of a process that has just executed `import sqlglot` and nothing else (what a new process running the group would have)"""
    import logging
    import sqlglot  # noqa: F401
    logging.getLogger("sqlglot").setLevel(logging.CRITICAL)
    spec = json.load(open(spec_path))
    results = []
    for group in spec["groups"]:
        r, w = os.pipe()
        pid = os.fork()
        if pid == 0:
            os.close(r)
            import signal

            class _Timeout(Exception):
                pass

            def _alarm(signum, frame):
                raise _Timeout()

            signal.signal(signal.SIGALRM, _alarm)
            out = {}
            for cid, op, a in group:
                signal.setitimer(signal.ITIMER_REAL, 8.0)
                try:
                    out[cid] = run_case(op, a)
                except _Timeout:
                    out[cid] = "EXC:Timeout"
                except RecursionError:
                    out[cid] = "EXC:RecursionError"
                except Exception as e:  # noqa
                    out[cid] = "EXC:" + type(e).__name__
                finally:
                    signal.setitimer(signal.ITIMER_REAL, 0)
            with os.fdopen(w, "w") as f:
                json.dump(out, f)
            os._exit(0)
        os.close(w)
        with os.fdopen(r) as f:
            data = f.read()
        os.waitpid(pid, 0)
        results.append(json.loads(data) if data else {})
    json.dump(results, sys.stdout)


def fork_run(groups, hashseed=0, servers=4):
    """groups of cases, each answered in its own fresh (forked-after-import) process; returns one dict per group"""
    if not groups:
        return []
    chunks = [groups[i::servers] for i in range(servers)]
    procs = []
    for ch in chunks:
        if not ch:
            procs.append(None)
            continue
        f = tempfile.NamedTemporaryFile("w", suffix=".json", delete=False)
        json.dump({"groups": ch}, f)
        f.close()
        env = dict(os.environ, PYTHONHASHSEED=str(hashseed), PYTHONPATH=REPO, PYTHONDONTWRITEBYTECODE="1")
        procs.append((subprocess.Popen([sys.executable, os.path.abspath(__file__), "--forkserver", f.name], stdout=subprocess.PIPE,
                                       stderr=subprocess.PIPE, env=env), f.name))
    outs = []
    for pr in procs:
        if pr is None:
            outs.append([])
            continue
        p, path = pr
        out, err = p.communicate(timeout=900)
        os.unlink(path)
        if p.returncode != 0:
            raise HarnessError("C15 fork server failed: " + err.decode("utf-8", "replace")[-400:])
        outs.append(json.loads(out.decode("utf-8")))
    res = [None] * len(groups)
    for si, ch in enumerate(chunks):
        for j, _ in enumerate(ch):
            res[si + j * servers] = outs[si][j]
    return res


# ------------------------------------------------------------------------------------------ case generators
ATOMS = ["x.a = 1", "x.b > 2", "y.a < 3", "x.a = y.a", "x.c = 'k'", "y.b <> 4", "x.a IS NULL", "x.b = x.a", "y.d > '2020-01-01'", "x.a IN (1, 2)"]


def g_pred(rng, d=0):
    r = rng.random()
    if d > 3 or r < 0.3:
        a = rng.choice(ATOMS[:rng.choice([3, 5, 10])])
        return a if rng.random() < 0.75 else f"NOT {a}"
    if r < 0.4:
        return f"NOT ({g_pred(rng, d + 1)})"
    op = rng.choice(["AND", "OR"])
    k = rng.choice([2, 2, 3, 4])
    return "(" + f" {op} ".join(g_pred(rng, d + 1) for _ in range(k)) + ")"


def g_query(rng):
    t = rng.random()
    p = g_pred(rng, 1)
    if t < 0.2:
        return f"SELECT x.a, y.b FROM x JOIN y ON x.a = y.a WHERE {p}", "a"
    if t < 0.35:
        return f"WITH c1 AS (SELECT a, b FROM x WHERE {g_pred(rng, 2)}), c2 AS (SELECT a, b FROM x WHERE {g_pred(rng, 2)}), c3 AS (SELECT a, b FROM x) SELECT c1.a, c2.b AS b FROM c1 JOIN c2 ON c1.a = c2.a JOIN c3 ON c3.a = c1.a", "a"
    if t < 0.5:
        return f"SELECT a, SUM(b) AS s FROM (SELECT x.a AS a, y.b AS b FROM x, y WHERE x.a = y.a AND {p}) AS q GROUP BY a HAVING SUM(b) > 1 ORDER BY a", "s"
    if t < 0.6:
        return f"SELECT x.a AS a FROM x WHERE x.a IN (SELECT y.a FROM y WHERE y.b = x.b) AND EXISTS (SELECT 1 FROM z WHERE z.a = x.a)", "a"
    if t < 0.7:
        return f"SELECT a FROM x UNION SELECT a FROM y UNION ALL SELECT a FROM z WHERE a > 1", "a"
    if t < 0.8:
        return f"SELECT x.a AS a, z.e AS e, y.d AS d FROM x JOIN y ON x.a = y.a AND x.b = y.b JOIN z ON z.a = y.a WHERE {p}", "e"
    if t < 0.9:
        return f"SELECT * FROM x CROSS JOIN y CROSS JOIN z WHERE x.a = z.a AND y.a = z.a AND x.b = y.b", "a"
    return f"SELECT q.a AS a, q.b + 1 AS b1 FROM (SELECT * FROM x WHERE {p}) AS q LEFT JOIN (SELECT a, MAX(b) AS b FROM y GROUP BY a) AS r ON q.a = r.a", "b1"


def build_cases(chk, n_pred, n_query, n_stmt):
    from vf.props import c14
    rng = chk.rng
    dialects = c14.all_dialects()
    cases = []
    for i in range(max(6, n_pred // 4)):
        nn = rng.randint(3, 9)
        dag = [[f"n{v:02d}", [f"n{w:02d}" for w in range(nn + 2) if w != v and rng.random() < 0.25 and (w < v or w >= nn)]] for v in range(nn)]
        rng.shuffle(dag)
        cases.append([f"tsort{i}", "tsort", {"dag": dag, "sql": "tsort " + " ".join(f"{k} <- {' '.join(v)} ;" for k, v in dag)}])
    for i in range(n_pred):
        p = g_pred(rng)
        for op in ("simplify", "cnf", "dnf"):
            cases.append([f"{op}{i}", op, {"sql": p}])
    for i in range(n_query):
        q, col = g_query(rng)
        for op in ("optimize", "qualify", "annotate"):
            cases.append([f"{op}{i}", op, {"sql": q}])
        cases.append([f"lineage{i}", "lineage", {"sql": q, "col": col}])
    for i, s in enumerate(["SELECT 1 EXCEPT SELECT 2 LIMIT 1, 2", "SELECT a FROM x UNION SELECT a FROM y ORDER BY a LIMIT 3",
                           "SELECT a FROM x INTERSECT SELECT a FROM y ORDER BY a OFFSET 2"]):
        cases.append([f"parsew{i}", "parse", {"sql": s, "read": None}])
        cases.append([f"sqlw{i}", "sql", {"sql": s, "read": None, "write": "duckdb", "pretty": True}])
    for i in range(n_stmt):
        s = rng.choice(c14.GEN_SQL) if rng.random() < 0.4 else c14.g_statement(rng)
        rd, wr = rng.choice([None] + dialects), rng.choice(dialects)
        cases.append([f"parse{i}", "parse", {"sql": s, "read": rd}])
        cases.append([f"transpile{i}", "transpile", {"sql": s, "read": rd, "write": wr, "pretty": rng.random() < 0.3}])
    return cases


ATOMS_V = ["JSON_EXTRACT(x.c, '$.B') = 1", "JSON_EXTRACT(x.c, '$.a') = 1", ":Pb = x.a", ":pa = x.a", "x.c = 'B'", "x.c = 'a'",
           "x.c LIKE 'Ab%'", "x.c = @Var", 'x."Col" = 1', ":Zed = x.b", "x.a = ?", "LOWER(x.c) = 'c'", "x.c IN ('Q', 'r')"]
# pairs of operands whose relative order in sorted text flips when the case of the first one's string / name is flipped
FLIP_PAIRS = [(":Pb = x.a", ":pa = x.a"), ("JSON_EXTRACT(x.c, '$.B') = 1", "JSON_EXTRACT(x.c, '$.a') = 1"), ("x.c = 'B'", "x.c = 'a'"),
              ('x."Col" = 1', 'x."bol" = 1'), ("x.c = @Var", "x.c = @uar"), ("x.c LIKE 'Ab%'", "x.c LIKE 'aa%'"),
              ("JSON_EXTRACT(x.c, '$.Key.Z') IS NULL", "JSON_EXTRACT(x.c, '$.Key.y') IS NULL")]
QUOTE_SQL = ['SELECT a AS "b c", \'it\'\'s\' AS s FROM t WHERE "x y" = 1', "SELECT a.b AS c, 'x\\y' FROM db.t AS a", 'SELECT "A", b FROM "T"']


def case_variant(sql, rng, all_=False):
    """a near-variant of a statement: same structure, strings / placeholder names / quoted identifiers differ only in case"""
    def flip(m):
        return m.group(0).swapcase() if (all_ or rng.random() < 0.6) else m.group(0)
    return re.sub(r"'[^']*'|\"[^\"]*\"|(?<=[:@])[A-Za-z_]\w*", flip, sql)


def build_family(chk, n_var):
    """cases whose result must equal what a FRESH process gives, whatever ran before: near-variant pairs (process-wide memo
    tables keyed by something coarser than the real identity), direct Generator/Parser/Tokenizer(dialect=…) constructions
    and user-defined dialects (state cached per class instead of per dialect)"""
    rng = chk.rng
    fam = []
    for i in range(n_var):
        atoms = list(rng.choice(FLIP_PAIRS)) + rng.sample(ATOMS_V, rng.choice([0, 0, 1, 2]))
        rng.shuffle(atoms)
        op = rng.choice(["AND", "OR"])
        pred = f" {op} ".join(atoms)
        if rng.random() < 0.3:
            pred = f"({pred}) {'OR' if op == 'AND' else 'AND'} {rng.choice(ATOMS_V)}"
        va, vb = pred, case_variant(pred, rng, all_=rng.random() < 0.7)
        if va == vb:
            vb = case_variant(pred, rng, all_=True)
        kind = rng.choice(["simplify", "simplify", "cnf", "optimize", "sql"])
        for tag, v in (("a", va), ("b", vb), ("c", "  ".join(va.split(" ")))):
            if kind == "optimize":
                fam.append([f"var{i}{tag}", "optimize", {"sql": f"SELECT x.a FROM x WHERE {v}"}])
            elif kind == "sql":
                fam.append([f"var{i}{tag}", "sql", {"sql": f"SELECT x.a FROM x WHERE {v}", "read": None, "write": rng.choice([None, "duckdb", "snowflake"]), "pretty": False}])
            else:
                fam.append([f"var{i}{tag}", kind, {"sql": v}])
    j = 0
    for sql in QUOTE_SQL:
        for d in ("mysql", "postgres", None, "bigquery", "tsql", "snowflake"):
            fam.append([f"gdir{j}", "gen_direct", {"sql": sql, "write": d}])
            fam.append([f"pdir{j}", "parser_direct", {"sql": sql, "read": d}])
            j += 1
    # a statement that fails half-way through a construct, then statements using the same keywords: a parse that raises
    # must leave no trace in tables shared by the parser class
    for k, (bad_sql, probes) in enumerate([
        ("SELECT a FROM t START WITH a = 1 CONNECT BY PRIOR a = (", ["SELECT PRIOR x FROM t", "SELECT PRIOR(x), prior FROM t", "SELECT a FROM t START WITH a = 1 CONNECT BY PRIOR a = b"]),
        ("SELECT CASE WHEN a THEN (", ["SELECT CASE WHEN a THEN b ELSE c END, \"end\" FROM t"]),
        ("SELECT x -> (", ["SELECT FILTER(arr, x -> x > 1), x -> 'k' FROM t"]),
        ("SELECT CAST(a AS STRUCT<b INT, (", ["SELECT CAST(a AS STRUCT<b INT, c TEXT>), struct FROM t"]),
        ("WITH c AS (SELECT 1 UNION SELECT (", ["WITH c AS (SELECT 1 UNION SELECT 2) SELECT * FROM c"]),
    ]):
        for rd in (None, "oracle", "snowflake"):
            fam.append([f"fail{k}{rd}", "parse", {"sql": bad_sql, "read": rd}])
            for pi, q in enumerate(probes):
                fam.append([f"probe{k}{rd}_{pi}", "sql", {"sql": q, "read": rd, "write": rd, "pretty": False}])
    # parse A, edit A in place (identifier passes of upper-casing dialects), then parse / transpile B: trees of different
    # parse calls must not share node objects (a class constant holding a node, embedded without .copy())
    MUT = [("SELECT * FROM UNNEST(arr) WITH OFFSET", "bigquery"), ("SELECT x, offset FROM t, UNNEST(t.arr) AS x WITH OFFSET", "bigquery"),
           ("SELECT a FROM t TABLESAMPLE (10 PERCENT)", None), ("SELECT * FROM t LIMIT 5", None), ("SELECT CAST(a AS INT), b::TEXT FROM t", None),
           ("SELECT a FROM t ORDER BY a", None), ("SELECT COUNT(*), IFNULL(a, 1) FROM t GROUP BY 1", "snowflake"),
           ("SELECT * FROM t1 JOIN t2 USING (a)", None), ("SELECT a FROM t FOR UPDATE", "mysql"), ("SELECT TOP 3 a FROM t", "tsql")]
    for k, (q, rd) in enumerate(MUT):
        fam.append([f"failpm{k}", "parse_mutate", {"sql": q, "read": rd}])
        fam.append([f"probepm{k}", "sql", {"sql": q, "read": rd, "write": rd, "pretty": False}])
        fam.append([f"probepmt{k}", "transpile", {"sql": q, "read": rd, "write": "duckdb", "pretty": False}])
    for spec in ("mysql, normalization_strategy = case_sensitive, version = 8.0", "mysql, version = 8.0, normalization_strategy = case_sensitive",
                 "snowflake, normalization_strategy = lowercase", "duckdb, version = 1.2", "mysql, foo = 1, bar = 2, baz = 3",
                 "presto, nope = 1, zzz", "bigquery,,"):
        fam.append([f"dset{j}", "dialect_settings", {"spec": spec, "sql": "dialect " + spec}])
        j += 1
    for which, sql in (("mysql_dq", 'SELECT "a b" FROM t'), ("pg_bt", "SELECT `a b`, 'x' FROM t"), ("base_bt", "SELECT `a b` FROM t"),
                       ("duck_gen", "SELECT a FROM t ORDER BY a NULLS FIRST"), ("settings:mysql, normalization_strategy = case_sensitive", "SELECT `Ab` FROM T"),
                       ("settings:snowflake, normalization_strategy = lowercase", 'SELECT Ab, "Cd" FROM T')):
        fam.append([f"cust{j}", "custom", {"which": which, "sql": sql}])
        fam.append([f"custref{j}", "sql", {"sql": sql.replace("`", '"'), "read": None, "write": which.split(":")[-1].split(",")[0] if which.startswith("settings:") else {"mysql_dq": "mysql", "pg_bt": "postgres", "base_bt": None, "duck_gen": "duckdb"}[which], "pretty": False}])
        j += 1
    return fam


def build_tie_family(chk):
    """inputs in which NAMES that get ordered differ only by case / quoting: join aliases (optimize_joins → tsort), CTE and
    derived-table names (eliminate_subqueries), connector operands (uniq_sort), tsort nodes.  A sort whose key lets such names
    tie falls back to set iteration order, i.e. to the hash seed — these few cases are run under a dozen seeds."""
    rng = chk.rng
    pairs = [("T", "t"), ("Ab", "ab"), ("Q", "q"), ("Zz", "zZ")]
    cases = []
    for i, (u, l) in enumerate(pairs):
        U = f'"{u}"'
        L = f'"{l}"' if l != l.lower() else l
        qs = [
            f"SELECT x.a FROM x JOIN y AS {U} ON x.a = {U}.a JOIN z AS {L} ON x.a = {L}.a",
            f"SELECT x.a FROM x JOIN z AS {L} ON x.a = {L}.a JOIN y AS {U} ON x.a = {U}.a",
            f"SELECT * FROM x, y AS {U}, z AS {L} WHERE x.a = {L}.a AND {L}.a = {U}.a",
            f"WITH {U} AS (SELECT a FROM x), {L} AS (SELECT a FROM y) SELECT {U}.a, {L}.a AS b FROM {U} JOIN {L} ON {U}.a = {L}.a",
            f"SELECT {U}.a, {L}.a AS b FROM (SELECT a FROM x) AS {U} JOIN (SELECT a FROM y) AS {L} ON {U}.a = {L}.a JOIN (SELECT a FROM x) AS w ON w.a = {L}.a",
        ]
        for j, q in enumerate(qs):
            cases.append([f"tie{i}o{j}", "optimize", {"sql": q}])
        cases.append([f"tie{i}q", "qualify", {"sql": qs[2]}])
        cases.append([f"tie{i}s", "simplify", {"sql": f"x.{U} = 1 AND x.{L} = 1 AND {U}.a = {L}.a OR '{u}' = x.c OR '{l}' = x.c"}])
        dag = [[u, []], [l, []], ["x", [u, l]], [u + "2", [l]], [l + "2", [u]]]
        rng.shuffle(dag)
        cases.append([f"tie{i}t", "tsort", {"dag": dag, "sql": "tsort " + " ".join(f"{k} <- {' '.join(v)} ;" for k, v in dag)}])
    return cases


PAIR_CORPUS = [
    "SELECT JSON_EXTRACT(x, '$.a[*].b'), JSON_EXTRACT_SCALAR(x, '$.a.b[0]'), JSON_EXTRACT(x, '$..c') FROM t",
    "SELECT CAST(a AS TIMESTAMP WITH TIME ZONE), CAST(b AS DECIMAL(10, 2)), CAST(c AS ARRAY<INT>), CAST(d AS TEXT) FROM t",
    "SELECT DATE_ADD(a, INTERVAL 1 DAY), DATE_TRUNC('week', a), STR_TO_DATE(s, '%Y-%m-%d'), a || b, a ILIKE 'x%' FROM t",
    "SELECT a AS \"b c\", 'it''s', x'FF', TRUE FROM db.t AS u WHERE a IS DISTINCT FROM b ORDER BY a NULLS FIRST LIMIT 3",
    "CREATE TABLE t (a INT PRIMARY KEY, b VARCHAR(10) DEFAULT 'x', c DOUBLE) PARTITIONED BY (a)",
    "SELECT ARRAY_AGG(a ORDER BY b), APPROX_DISTINCT(a), ARRAY[1, 2][1], STRUCT(1 AS x), UNNEST(arr) FROM t GROUP BY ALL",
    "SELECT * FROM t TABLESAMPLE (10 PERCENT) QUALIFY ROW_NUMBER() OVER (PARTITION BY a ORDER BY b) = 1",
    "SELECT x -> '$.k', x ->> 'k', LEVENSHTEIN(a, b), IF(a, 1, 2), TRY_CAST(a AS INT), a % 2, LOG(2, a) FROM t",
    "SELECT INTERVAL '1' YEAR_MONTH, INTERVAL 5 DAY_SECOND, INTERVAL '1' day, a + INTERVAL 2 WEEK, INTERVAL '3' HOUR_MINUTE AS x FROM t",
    "SELECT PRIOR x, a FROM t START WITH a = 1 CONNECT BY PRIOR a = b",
    "ALTER TABLE foo ADD COLUMN id INT",
    "ALTER TABLE foo ADD COLUMNS (a INT, b STRING)",
    "CREATE EXTERNAL TABLE foo (a INT) LOCATION 's3://b/'",
    "SELECT CAST(a AS VARCHAR) + CAST(b AS DATE), COALESCE(CAST(a AS VARCHAR), CAST(b AS TIMESTAMP)), CASE WHEN x THEN CAST(a AS TEXT) ELSE CAST(b AS DATE) END, CAST(a AS BIGINT) + CAST(b AS DECIMAL) FROM t",
]


def related_dialect_pairs(transitive=False):
    """(A, B): B's dialect / generator / parser module imports A's, or B's generator / parser / tokenizer class has A's in its
    MRO — the pairs in which one side may share or copy class tables of the other"""
    from sqlglot.dialects.dialect import Dialect
    from vf.props import c14
    names = [d for d in c14.all_dialects() if d]
    pairs = set()
    for b in names:
        for sub in ("dialects", "generators", "parsers"):
            path = os.path.join(REPO, "sqlglot", sub, f"{b}.py")
            if not os.path.exists(path):
                continue
            for n in ast.walk(ast.parse(open(path, encoding="utf-8").read())):
                if isinstance(n, ast.ImportFrom) and n.module:
                    m = re.fullmatch(r"sqlglot\.(dialects|generators|parsers)\.(\w+)", n.module)
                    if m and m.group(2) in names and m.group(2) != b:
                        pairs.add((m.group(2), b))
    cls_of = {}
    for d in names:
        D = Dialect.get_or_raise(d)
        cls_of[d] = (type(D).generator_class, type(D).parser_class, type(D).tokenizer_class, type(D))
    for a in names:
        for b in names:
            if a != b and any(ca in cb.__mro__[1:] for ca, cb in zip(cls_of[a], cls_of[b])):
                pairs.add((a, b))
    # internal engines (a Generator / Parser subclass that no dialect registers): their parent's dialect vs the host dialect
    for kind, mod, cls, parent, host, ov in internal_subclasses():
        if parent and host in names and parent in names and parent != host:
            pairs.add((parent, host))
    return sorted(pairs)


def pair_sweep(chk, width=8):
    """every related pair in both orders against the second dialect alone, each run in its own new process"""
    pairs = related_dialect_pairs()
    involved = sorted({x for p in pairs for x in p})
    from vf.props import c14
    every = [d for d in c14.all_dialects() if d]
    # "after every dialect was imported and used": all of them in the thorough tier, a seeded sample in the quick one
    star = every if not chk.quick else sorted(set(chk.rng.sample(every, 8)) | {"athena"})
    alone = sorted(set(involved) | set(star))
    specs = [(None, x) for x in alone] + [("*", x) for x in star] + [(a, b) for a, b in pairs] + [(b, a) for a, b in pairs]
    res = {}
    glist = [[[f"pair:{first}>{second}", "pair", {"first": first, "second": second, "corpus": PAIR_CORPUS, "sql": f"pair {first} {second}"}]]
             for first, second in specs]
    for (first, second), out in zip(specs, fork_run(glist, 0)):
        res[(first, second)] = out.get(f"pair:{first}>{second}")
    found = []
    for (first, second), out in res.items():
        if first is None or out == res[(None, second)]:
            continue
        alone = str(res[(None, second)]).split("\n")
        after = str(out).split("\n")
        j = next((i for i, (x, y) in enumerate(zip(alone, after)) if x != y), 0)
        found.append((first, second, PAIR_CORPUS[j // 3], alone[j] if j < len(alone) else "", after[j] if j < len(after) else ""))
    # "after every dialect" differences: which single dialect is enough?  (one attribution run, reused for the same statement)
    culprit: dict = {}
    for i, (first, second, q, alone_, after_) in enumerate(found):
        if first != "*":
            continue
        if q not in culprit:
            others = [x for x in every if x != second]
            gl = [[[f"c:{x}", "pair", {"first": x, "second": second, "corpus": [q], "sql": "pair"}]] for x in others]
            base = fork_run([[["c:0", "pair", {"first": None, "second": second, "corpus": [q], "sql": "pair"}]]], 0)[0].get("c:0")
            culprit[q] = next((x for x, out in zip(others, fork_run(gl, 0)) if out.get(f"c:{x}") != base), "*")
        found[i] = (culprit[q], second, q, alone_, after_)
    chk.cov["dialect_pairs"] = {"pairs": len(pairs), "processes": len(specs), "attributed": culprit}
    return found


def fresh_reference(cases, hashseed=0, width=8):
    """each case alone in a brand-new process (the probes of the failing-history group share one process per dialect: they
    are valid statements, the reference must only be free of the FAILING statements)"""
    groups: dict = {}
    for c in cases:
        if c[0].startswith("probe"):
            groups.setdefault(c[2].get("read"), []).append(c)
    glist = list(groups.values()) + [[c] for c in cases if not c[0].startswith(("probe", "fail"))]
    ref = {}
    for out in fork_run(glist, hashseed):
        ref.update(out)
    return ref


def minimise_history(prefix, case, fresh_out, hashseed, budget_s=10.0):
    """bisect the cases that ran before `case` down to a small history after which its output still differs from fresh"""
    t0 = time.time()

    def differs(hist):
        cs = hist + [case]
        p, path = spawn(cs, list(range(len(cs))), hashseed)
        return collect(p, path).get(case[0]) != fresh_out

    cur = list(prefix)
    while len(cur) > 1 and time.time() - t0 < budget_s:
        h = len(cur) // 2
        a, b = cur[:h], cur[h:]
        pa, pb = spawn(a + [case], list(range(len(a) + 1)), hashseed), spawn(b + [case], list(range(len(b) + 1)), hashseed)
        ra, rb = collect(*pa).get(case[0]) != fresh_out, collect(*pb).get(case[0]) != fresh_out
        if rb:
            cur = b
        elif ra:
            cur = a
        else:
            break
    return cur if differs(cur) else list(prefix)


def spawn(cases, order, hashseed):
    f = tempfile.NamedTemporaryFile("w", suffix=".json", delete=False)
    json.dump({"cases": cases, "order": order}, f)
    f.close()
    env = dict(os.environ, PYTHONHASHSEED=str(hashseed), PYTHONPATH=REPO, PYTHONDONTWRITEBYTECODE="1")
    p = subprocess.Popen([sys.executable, os.path.abspath(__file__), "--worker", f.name], stdout=subprocess.PIPE,
                         stderr=subprocess.PIPE, env=env)
    return p, f.name


def collect(p, path):
    out, err = p.communicate(timeout=900)
    os.unlink(path)
    if p.returncode != 0:
        raise HarnessError("C15 worker failed: " + err.decode("utf-8", "replace")[-400:])
    return json.loads(out.decode("utf-8"))


def sweep(chk, cases, configs):
    """configs: list of (hashseed, order). Returns {cid: {config_index: output}} for cases whose outputs differ"""
    procs = [spawn(cases, order, hs) for hs, order in configs]
    outs = [collect(p, path) for p, path in procs]
    diffs = {}
    for cid, _, _ in cases:
        vals = [o.get(cid) for o in outs]
        if len(set(vals)) > 1:
            diffs[cid] = vals
    return diffs, outs


def minimise_sweep_diff(case, seeds, budget_s=12.0):
    """delta-debug the SQL of a case whose output differs between two hash seeds; every round tests all candidates of one
    granularity in ONE pair of subprocesses"""
    from vf.props import c14
    cid, op, a = case
    ts = c14.toks(a["sql"])
    t0 = time.time()
    while len(ts) >= 2 and time.time() - t0 < budget_s:
        cands = []
        size = len(ts) // 2
        while size >= 1 and len(cands) < 160:
            for i in range(0, len(ts), size):
                c = ts[:i] + ts[i + size:]
                if c:
                    cands.append((size, c))
            size //= 2
        cases = [[f"m{i}", op, dict(a, sql=c14.untoks(c))] for i, (_, c) in enumerate(cands)]
        order = list(range(len(cases)))
        diffs, outs = sweep(None, cases, [(seeds[0], order), (seeds[1], order)])
        hits = [i for i in order if f"m{i}" in diffs and not str(outs[0][f"m{i}"]).startswith("EXC")]
        if not hits:
            break
        ts = cands[hits[0]][1]  # candidates are listed from the largest removal down
    return [cid, op, dict(a, sql=c14.untoks(ts))]


def abstract_sql(sql):
    from vf.props import c14
    return c14.abstract(sql)


# ------------------------------------------------------------------------------------------ in-process reuse checks
def norm_exc(e):
    return "EXC:" + type(e).__name__ + ":" + str(e)[:200]


SCHEMA_MAPPINGS = [
    {"t": {"a": "INT", "b": "TEXT"}, "x": {"a": "INT"}},
    {"db1": {"t": {"a": "INT"}, "x": {"a": "INT", "c": "DATE"}}, "db2": {"t": {"b": "TEXT"}, "y": {"a": "INT"}}},
    {"c1": {"db1": {"t": {"a": "INT"}}}, "c2": {"db1": {"t": {"a": "DOUBLE"}, "x": {"a": "INT"}}, "db2": {"z": {"e": "INT"}}}},
]
SCHEMA_TABLES = ["t", "db1.t", "c1.db1.t", "x", "db2.y", "nope", "db1.nope", "z"]


def schema_op(schema, op):
    """one call on a MappingSchema (or an optimizer entry point given that schema object) -> value or exception text"""
    import sqlglot
    from sqlglot import exp
    from sqlglot.optimizer import optimize
    from sqlglot.optimizer.annotate_types import annotate_types
    from sqlglot.optimizer.qualify import qualify
    kind = op[0]
    try:
        if kind == "find":
            r = schema.find(exp.to_table(op[1]), raise_on_missing=op[2], ensure_data_types=op[3])
            return "None" if r is None else str(sorted((k, v.sql() if hasattr(v, "sql") else v) for k, v in r.items()))
        if kind == "names":
            return str(list(schema.column_names(op[1])))
        if kind == "type":
            return schema.get_column_type(op[1], op[2]).sql()
        if kind == "has":
            return str(schema.has_column(op[1], op[2]))
        if kind == "qualify":
            return qualify(sqlglot.parse_one(op[1]), schema=schema).sql()
        if kind == "annotate":
            e = annotate_types(sqlglot.parse_one(op[1]), schema=schema)
            return ",".join(x.type.sql() if x.type else "?" for x in e.selects)
        if kind == "optimize":
            return optimize(sqlglot.parse_one(op[1]), schema=schema).sql()
        raise ValueError(kind)
    except RecursionError:
        return "EXC:RecursionError"
    except Exception as e:  # noqa
        return "EXC:" + type(e).__name__ + ":" + str(e)[:160]


def schema_rand_op(rng):
    t = rng.choice(SCHEMA_TABLES)
    r = rng.random()
    if r < 0.25:
        return ["find", t, rng.random() < 0.5, rng.random() < 0.4]
    if r < 0.42:
        return ["names", t]
    if r < 0.58:
        return ["type", t, rng.choice(["a", "b", "zz"])]
    if r < 0.70:
        return ["has", t, rng.choice(["a", "b", "zz"])]
    alias = t.split(".")[-1]
    sql = rng.choice([f"SELECT {alias}.a FROM {t} AS {alias}", f"SELECT * FROM {t}", f"SELECT a FROM {t}", f"SELECT a + 1 AS s FROM {t} WHERE a > 0"])
    return [rng.choice(["qualify", "annotate", "optimize"]), sql]


def schema_reuse(chk, report_schema, budget_s):
    """one MappingSchema object answering a history of tolerant / strict lookups and optimizer calls; every answer is compared
    with a schema freshly built from the same mapping (Properties/C15.lean schema_reuse_eq_fresh / …_serving_misses_witness)"""
    import copy
    from sqlglot.schema import MappingSchema
    rng = chk.rng
    t0 = time.time()
    n = 0
    fixed = []
    for t in ("t", "nope", "db1.t", "x"):
        a = t.split(".")[-1]
        fixed += [
            [["type", t, "a"], ["names", t]], [["names", t], ["type", t, "a"]],
            [["find", t, False, False], ["find", t, True, False]], [["find", t, True, False], ["find", t, False, False]],
            [["annotate", f"SELECT {a}.a FROM {t} AS {a}"], ["names", t], ["qualify", f"SELECT * FROM {t}"], ["qualify", f"SELECT a FROM {t}"]],
            [["has", t, "a"], ["find", t, True, True], ["optimize", f"SELECT a FROM {t}"]],
        ]
    hists = [(mi, h) for mi in range(len(SCHEMA_MAPPINGS)) for h in fixed]
    while len(hists) < chk.pick(140, 1500):
        hists.append((rng.randrange(len(SCHEMA_MAPPINGS)), [schema_rand_op(rng) for _ in range(rng.randint(2, 7))]))
    for mi, hist in hists:
        if time.time() - t0 > budget_s:
            break
        mapping = SCHEMA_MAPPINGS[mi]
        reused = MappingSchema(copy.deepcopy(mapping))
        for i, op in enumerate(hist):
            n += 1
            a = schema_op(MappingSchema(copy.deepcopy(mapping)), op)
            b = schema_op(reused, op)
            if a != b:
                # which single earlier call is enough?
                prev = hist[:i]
                for j in range(len(prev)):
                    r2 = MappingSchema(copy.deepcopy(mapping))
                    schema_op(r2, prev[j])
                    if schema_op(r2, op) != a:
                        prev = [prev[j]]
                        break
                report_schema(mi, prev, op, a, b)
                break
        chk.case(("schema-reuse", mi, str(hist)), nontrivial=len(hist) > 1)
    return n


def reuse_checks(chk, budget_s):
    import logging
    import sqlglot
    from sqlglot import exp
    from sqlglot.dialects.dialect import Dialect
    from sqlglot.errors import ErrorLevel
    from sqlglot.schema import MappingSchema
    from sqlglot.optimizer import optimize
    from vf.props import c14

    logging.getLogger("sqlglot").setLevel(logging.CRITICAL)
    rng = chk.rng
    dialects = c14.all_dialects()
    t0 = time.time()
    found = 0
    n = 0

    def attempt(fn):
        try:
            return fn()
        except RecursionError:
            return "EXC:RecursionError"
        except Exception as e:  # noqa
            return norm_exc(e)

    def report(component, sql, d, a, b, extra=""):
        nonlocal found
        found += 1
        sa, sb = str(a), str(b)
        cls = "alias-counter" if re.sub(r"_t\d+", "_tN", sa) == re.sub(r"_t\d+", "_tN", sb) else "other"
        chk.report_violation(f"reuse:{component}:{abstract_sql(sql)}:{cls}",
                             f"a reused {component} answers {sb[:90]!r}, a fresh one {sa[:90]!r} {extra}",
                             {"kind": "reuse", "component": component, "sql": sql, "dialect": d, "fresh": sa[:400], "reused": sb[:400]},
                             {"dialect": d or "", "class": cls})

    def report_hist(component, history, probe, d, a, b, extra=""):
        """a reuse difference that needs an earlier call (the history) on the same object"""
        nonlocal found
        found += 1
        chk.report_violation(f"reuse:{component}:{abstract_sql(probe)}|after:{abstract_sql(history)}",
                             f"a reused {component} answers {str(b)[:90]!r}, a fresh one {str(a)[:90]!r} {extra}",
                             {"kind": "reuse-history", "component": component, "history": history, "sql": probe, "dialect": d,
                              "extra": extra, "fresh": str(a)[:400], "reused": str(b)[:400]},
                             {"dialect": d or "", "class": "after-exception"})

    def report_schema(mi, prev, op, a, b):
        nonlocal found
        found += 1

        def sk(o):
            return o[0] + "(" + ("strict" if (o[0] == "find" and o[2]) else "tolerant" if o[0] == "find" else "") + ")"
        chk.report_violation(f"reuse:MappingSchema:{sk(op)}|after:{'+'.join(sk(o) for o in prev)}",
                             f"a reused MappingSchema answers {str(b)[:100]!r} to {op}, a fresh one over the same mapping {str(a)[:100]!r} (after {prev})",
                             {"kind": "reuse-schema", "mapping": SCHEMA_MAPPINGS[mi], "history": prev, "op": op, "fresh": str(a)[:400], "reused": str(b)[:400]},
                             {"class": "schema-history"})

    n += schema_reuse(chk, report_schema, chk.pick(5.0, 60.0))

    # --- trees returned by DIFFERENT calls share no node object (Properties/C15.lean embedded_copy_keeps_parses_independent)
    from sqlglot.optimizer.qualify import qualify as _qualify
    DISJOINT_SQL = list(c14.GEN_SQL) + PAIR_CORPUS + ["SELECT * FROM UNNEST(arr) WITH OFFSET", "SELECT x FROM t, UNNEST(t.arr) AS x WITH OFFSET",
                                                     "SELECT * FROM t TABLESAMPLE (5)", "SELECT a FROM t LIMIT 1 OFFSET 2", "SELECT 1"]

    def node_ids(tree):
        return {id(x): x for x in tree.walk()}

    t1 = time.time()
    shared_found = 0
    for d in dialects:
        if time.time() - t1 > chk.pick(4.0, 60.0) or shared_found:
            break
        dia = Dialect.get_or_raise(d)
        keep = []      # earlier results stay alive, so ids are comparable
        for sql in DISJOINT_SQL:
            r1 = attempt(lambda: [t for t in dia.parse(sql) if t is not None])
            if isinstance(r1, str) or not r1:
                continue
            r2 = attempt(lambda: [t for t in dia.parse(sql) if t is not None])
            if isinstance(r2, str) or not r2:
                continue
            n += 1
            ids1 = node_ids(r1[0])
            both = [x for i, x in node_ids(r2[0]).items() if i in ids1]
            q1 = attempt(lambda: _qualify(r1[0].copy(), schema=None, validate_qualify_columns=False, dialect=d))
            q2 = attempt(lambda: _qualify(r2[0].copy(), schema=None, validate_qualify_columns=False, dialect=d))
            if not both and not isinstance(q1, str) and not isinstance(q2, str):
                idq = node_ids(q1)
                both = [x for i, x in node_ids(q2).items() if i in idq]
            keep.append((r1, r2, q1, q2))
            if both:
                shared_found += 1
                found += 1
                node = both[0]
                chk.report_violation(f"shared-node:{type(node).__name__}:{abstract_sql(sql)}",
                                     f"two separate parses of the same statement share the node object {node!r:.80} "
                                     f"({type(node).__name__}): an in-place edit of one result changes the other",
                                     {"kind": "shared-node", "sql": sql, "dialect": d, "node": repr(node)[:200]},
                                     {"class": "shared-node"})
                break
    chk.count("reuse:disjointness-checked", n)
    # --- a Parser that CRASHED (an internal exception escaping a speculative sub-parse) must still answer like a new one:
    #     tree, errors list and the error_level attribute, for every error level
    #     (Properties/C15.lean try_parse_restores_level_all_exits / try_parse_restore_needs_finally)
    from sqlglot.errors import SqlglotError
    PROBES = ["SELECT a FROM t WHERE", "SELECT CAST(a AS) FROM t", "SELECT a +, b FROM (SELECT 1", "SELECT 1"]
    FORMS = ["SELECT a FROM t LIMIT {f}(1)", "SELECT a FROM t, {f}(1)", "SELECT a FROM t, {f}(x)", "SELECT a FROM t WHERE x IN ({f}())"]

    def crashers(dia, limit, budget):
        t1 = time.time()
        names = sorted(dia.parser_class.FUNCTIONS)
        rng.shuffle(names)
        seeded = [x for x in ("VAR_MAP", "DATE_ADD", "HASHBYTES") if x in dia.parser_class.FUNCTIONS]
        out = []
        for f in seeded + names:
            for form in FORMS:
                sql = form.format(f=f)
                try:
                    with c14.watchdog(3.0):
                        dia.parser(error_level=ErrorLevel.WARN).parse(dia.tokenize(sql), sql)
                except SqlglotError:
                    continue
                except Exception:  # noqa  (IndexError / AttributeError / ValueError / … : C05's finding, our history)
                    out.append(sql)
                    break
            if len(out) >= limit or time.time() - t1 > budget:
                break
        return out

    def parse_obs(p, dia, sql):
        r = p.parse(dia.tokenize(sql), sql)
        return [c14.dump_tree(t) for t in r], [str(e) for e in p.errors]

    for d in [None, "mysql", "tsql", rng.choice(dialects)]:
        dia = Dialect.get_or_raise(d)
        poison = crashers(dia, chk.pick(3, 12), chk.pick(1.5, 10.0))
        chk.count("reuse:crash-histories", len(poison))
        for bad_sql in poison:
            for level in (ErrorLevel.IGNORE, ErrorLevel.WARN, ErrorLevel.RAISE, ErrorLevel.IMMEDIATE):
                reused = dia.parser(error_level=level)
                attempt(lambda: parse_obs(reused, dia, bad_sql))
                lv_after = getattr(reused.error_level, "name", None)
                differs = False
                for probe in PROBES:
                    n += 1
                    a = attempt(lambda: parse_obs(dia.parser(error_level=level), dia, probe))
                    b = attempt(lambda: parse_obs(reused, dia, probe))
                    if a != b:
                        report_hist("Parser", bad_sql, probe, d, a, b, f"(error_level={level.name}; the reused parser's error_level attribute is {lv_after})")
                        differs = True
                        break
                if lv_after != level.name and not differs:
                    report_hist("Parser", bad_sql, "<attribute error_level>", d, level.name, lv_after, f"(error_level={level.name}; the attribute itself)")
                if differs or lv_after != level.name:
                    break
                chk.case(("reuse-after-crash", bad_sql, d, level.name), nontrivial=True)
    # --- a Generator whose call was cut short by an UnsupportedError (IMMEDIATE) must still answer like a new one
    UDFS = ["CREATE FUNCTION f(x ARRAY<INT>, y TIMESTAMP WITH TIME ZONE) RETURNS INT AS 'SELECT 1'",
            "CREATE FUNCTION f(x MAP<TEXT, INT>, y UUID, z INTERVAL) RETURNS INT AS 'SELECT 1'",
            "SELECT JSON_VALUE(x, '$.a b'), JSON_EXTRACT_SCALAR(y, '$.c') FROM t QUALIFY ROW_NUMBER() OVER (ORDER BY a) = 1"]
    for wr in ["singlestore", "dremio", "bigquery", rng.choice(dialects), rng.choice(dialects)]:
        dia = Dialect.get_or_raise(wr)
        for bad_sql in UDFS:
            tree = attempt(lambda: sqlglot.parse_one(bad_sql))
            if isinstance(tree, str):
                continue
            for ident in (True, False):
                opts = {"unsupported_level": ErrorLevel.IMMEDIATE, "identify": ident}
                reused = dia.generator(**opts)
                first = attempt(lambda: reused.generate(tree))
                if not str(first).startswith("EXC:UnsupportedError"):
                    continue
                chk.count("reuse:generator-cut-short")
                for probe in ("SELECT a, \"b c\" FROM t", "SELECT JSON_VALUE(x, '$.a b') FROM t"):
                    ptree = sqlglot.parse_one(probe)
                    n += 1
                    a = attempt(lambda: dia.generator(**opts).generate(ptree))
                    b = attempt(lambda: reused.generate(ptree))
                    if a != b:
                        report_hist("Generator", bad_sql, probe, wr, a, b, f"(unsupported_level=IMMEDIATE, identify={ident})")
                        break

    ALIAS_SQL = ["SELECT * FROM t AS (a, b)", "SELECT * FROM (SELECT 1) AS (a)", "SELECT * FROM UNNEST(x) AS (a)"]
    # witness templates first (Properties/C15.lean generator_next_name_snapshot_witness / generator_next_name_restarts)
    for sql in ALIAS_SQL:
        tree = sqlglot.parse_one(sql)
        g0 = Dialect.get_or_raise(None).generator()
        g0.generate(tree)
        a, b = Dialect.get_or_raise(None).generator().generate(tree), g0.generate(tree)
        n += 1
        if a != b:
            report("Generator", sql, None, a, b, "(second call on the same object)")
    bq = Dialect.get_or_raise("bigquery")
    pp = bq.parser()
    for sql in ["FROM t |> SELECT a |> WHERE a > 1", "FROM t |> AGGREGATE SUM(a) AS s GROUP BY b |> ORDER BY s", "FROM t |> SELECT a |> WHERE a > 1"]:
        a = attempt(lambda: [c14.dump_tree(t) for t in bq.parser().parse(bq.tokenize(sql), sql)])
        b = attempt(lambda: [c14.dump_tree(t) for t in pp.parse(bq.tokenize(sql), sql)])
        n += 1
        if a != b:
            report("Parser", sql, "bigquery", a, b, "(pipe syntax: per-call CTE counter)")
    while time.time() - t0 < budget_s and len(chk.violations) < 3:
        d = rng.choice(dialects)
        dia = Dialect.get_or_raise(d)
        level = rng.choice([None, ErrorLevel.WARN, ErrorLevel.IGNORE, ErrorLevel.RAISE])
        # --- Parser and Tokenizer objects reused over a history that includes failing inputs
        parser = dia.parser(error_level=level) if level else dia.parser()
        tokenizer = dia.tokenizer()
        hist = [c14.g_script(rng) if rng.random() < 0.6 else rng.choice(c14.CORPUS) for _ in range(rng.randint(2, 6))]
        for sql in hist:
            n += 1
            fresh_tok = attempt(lambda: [(t.token_type, t.text, t.line, t.col, t.start, t.end, tuple(t.comments)) for t in dia.tokenizer().tokenize(sql)])
            reused_tok = attempt(lambda: [(t.token_type, t.text, t.line, t.col, t.start, t.end, tuple(t.comments)) for t in tokenizer.tokenize(sql)])
            if fresh_tok != reused_tok:
                report("Tokenizer", sql, d, fresh_tok, reused_tok)
            if isinstance(fresh_tok, str):
                continue
            toks = attempt(lambda: dia.tokenize(sql))

            def parse_with(p):
                r = p.parse(dia.tokenize(sql), sql)
                return [c14.dump_tree(t) for t in r], [str(e) for e in p.errors]

            fp = dia.parser(error_level=level) if level else dia.parser()
            a = attempt(lambda: parse_with(fp))
            b = attempt(lambda: parse_with(parser))
            if a != b:
                report("Parser", sql, d, a, b, f"(error_level={level})")
            if getattr(parser.error_level, "name", None) != getattr(fp.error_level, "name", None):
                report("Parser", sql, d, fp.error_level, parser.error_level, "(error_level left changed)")
            chk.case(("reuse-parse", sql, d, str(level)), nontrivial=isinstance(a, str) or bool(a[1]))
        # --- Generator objects reused, also after an UnsupportedError in the middle of a call
        ulevel = rng.choice([ErrorLevel.WARN, ErrorLevel.IMMEDIATE, ErrorLevel.RAISE, ErrorLevel.IGNORE])
        opts = {"unsupported_level": ulevel, "pretty": rng.random() < 0.3, "identify": rng.choice([False, False, True])}
        gen = dia.generator(**opts)
        for _ in range(rng.randint(2, 6)):
            sql = rng.choice(c14.GEN_SQL + ALIAS_SQL) if rng.random() < 0.6 else c14.g_statement(rng)
            rd = rng.choice([None, None] + dialects)
            try:
                tree = sqlglot.parse_one(sql, read=rd)
            except Exception:  # noqa
                continue
            n += 1
            a = attempt(lambda: dia.generator(**opts).generate(tree))
            b = attempt(lambda: gen.generate(tree))
            if a != b:
                report("Generator", sql, d, a, b, f"(unsupported_level={ulevel.name})")
            chk.case(("reuse-gen", sql, d, ulevel.name), nontrivial=str(a).startswith("EXC") or "_t" in str(a))
        # --- Dialect object reused / interleaved with other dialects; MappingSchema reused by optimize
        sql = rng.choice(c14.GEN_SQL)
        other = rng.choice(dialects)
        a = attempt(lambda: Dialect.get_or_raise(d).transpile(sql) if hasattr(dia, "transpile") else sqlglot.transpile(sql, read=d, write=d))
        attempt(lambda: sqlglot.transpile(rng.choice(c14.GEN_SQL), read=other, write=d))
        attempt(lambda: sqlglot.transpile("SELECT (", read=d, write=other))
        b = attempt(lambda: dia.transpile(sql) if hasattr(dia, "transpile") else sqlglot.transpile(sql, read=d, write=d))
        if a != b:
            report("Dialect", sql, d, a, b)
        schema = MappingSchema(SCHEMA)
        q, _ = g_query(rng)
        a = attempt(lambda: optimize(sqlglot.parse_one(q), schema=MappingSchema(SCHEMA)).sql())
        attempt(lambda: optimize(sqlglot.parse_one(g_query(rng)[0]), schema=schema).sql())
        b = attempt(lambda: optimize(sqlglot.parse_one(q), schema=schema).sql())
        if a != b:
            report("MappingSchema", q, None, a, b)
        n += 2
    return n, found


# ------------------------------------------------------------------------------------------ search
def search(chk, hints, budget_s):
    rng = chk.rng
    t0 = time.time()
    cases = build_cases(chk, chk.pick(60, 600), chk.pick(30, 250), chk.pick(60, 600))
    family = build_family(chk, chk.pick(24, 160))
    # the family is spread over the history so that variants / other dialects run both before and after each other
    for c in family:
        cases.insert(rng.randrange(len(cases) + 1), c)
    ids = list(range(len(cases)))
    configs = [(0, ids)]
    for hs in chk.pick([1, 2], [1, 2, 3, 77, 12345]):
        o = list(ids)
        rng.shuffle(o)
        configs.append((hs, o))
    configs.append((rng.randrange(1, 4000000), list(reversed(ids))))
    configs.append((0, sorted(ids, key=lambda i: (cases[i][1], rng.random()))))  # same seed, other order: history only
    phase: dict = {}
    chk.cov["search_phase_s"] = phase
    diffs, outs = sweep(chk, cases, configs)
    phase["sweep"] = round(time.time() - t0, 1)
    by_id = {c[0]: c for c in cases}
    fam_ids = {c[0] for c in family}
    reported: set = set()
    for c in cases:
        chk.count("sweep:" + c[1])
        chk.case(("sweep", c[1], c[2]), nontrivial=not str(outs[0].get(c[0], "")).startswith("EXC"))
    chk.count("sweep:exc-cases", sum(1 for v in outs[0].values() if str(v).startswith("EXC")))
    for cid, vals in list(diffs.items())[:8]:
        if len(reported) >= 4:
            break
        _, op, a = by_id[cid]
        first = next(i for i, v in enumerate(vals) if v != vals[0])
        same_seed_other_order = configs[first][0] == configs[0][0]
        # confirm in isolation: the single case under the two hash seeds
        solo, _ = sweep(chk, [by_id[cid]], [(configs[0][0], [0]), (configs[first][0], [0])])
        if not solo and cid in fam_ids:
            continue  # depends on what ran before: reported below with the history that causes it
        reported.add(cid)
        why = "hash-seed" if solo else ("history/order" if same_seed_other_order or not solo else "hash-seed")
        small = by_id[cid]
        if solo and op not in ("tsort", "dialect_settings"):
            small = minimise_sweep_diff(by_id[cid], [configs[0][0], configs[first][0]])
        skeleton = abstract_sql(small[2]["sql"]) if op != "tsort" else f"dag({len(a['dag'])} nodes)"
        if op == "dialect_settings":
            both = [str(vals[0]), str(vals[first])]
            skeleton = "unknown-setting-message" if all(v.startswith("ValueError:Unknown setting") for v in both) else "settings"
        if op == "parse":
            # a tree whose only difference is the insertion order of two args is identified by those arg names
            try:
                da, db = json.loads(vals[0]), json.loads(vals[first])
                j = next(i for i, (x, y) in enumerate(zip(da, db)) if x != y)
                ka, kb = da[j].get("k"), db[j].get("k")
                if ka and kb and ka != kb and len(da) == len(db):
                    skeleton = "args-order:" + "|".join(sorted({ka, kb}))
            except Exception:  # noqa
                pass
        chk.report_violation(f"nondeterministic:{op}:{why}:{skeleton}",
                             f"{op} output differs between runs (PYTHONHASHSEED {configs[0][0]} vs {configs[first][0]}, {why})",
                             {"kind": "sweep", "case": small, "original": by_id[cid][2]["sql"], "hashseeds": [configs[0][0], configs[first][0]],
                              "orders_differ": True, "outputs": [str(vals[0])[:300], str(vals[first])[:300]], "isolated_repro": bool(solo)},
                             {"op": op, "why": why})
    # --- the tie family (names differing only by case / quoting) under a dozen hash seeds
    tie = build_tie_family(chk)
    tie_seeds = list(range(chk.pick(12, 24)))
    tdiffs, touts = sweep(chk, tie, [(hs, list(range(len(tie)))) for hs in tie_seeds])
    for c in tie:
        chk.count("tie-family:" + c[1])
        chk.case(("tie", c[1], c[2]["sql"]), nontrivial=not str(touts[0].get(c[0], "")).startswith("EXC"))
    tie_by_id = {c[0]: c for c in tie}
    for cid, vals in list(tdiffs.items())[:3]:
        c = tie_by_id[cid]
        first = next(i for i, v in enumerate(vals) if v != vals[0])
        small = c if c[1] == "tsort" else minimise_sweep_diff(c, [tie_seeds[0], tie_seeds[first]], budget_s=8.0)
        split = {str(v)[:60]: [tie_seeds[i] for i, w in enumerate(vals) if w == v] for v in set(vals)}
        chk.report_violation(f"nondeterministic:{c[1]}:hash-seed:{abstract_sql(small[2]['sql']) if c[1] != 'tsort' else 'names-differing-by-case'}",
                             f"{c[1]} output differs between PYTHONHASHSEED {tie_seeds[0]} and {tie_seeds[first]} (names differing only by case / quoting)",
                             {"kind": "sweep", "case": small, "original": c[2]["sql"], "hashseeds": [tie_seeds[0], tie_seeds[first]],
                              "outputs": [str(vals[0])[:300], str(vals[first])[:300]], "seeds_by_output": split, "isolated_repro": True},
                             {"op": c[1], "why": "hash-seed"})
    phase["sweep+tie"] = round(time.time() - t0, 1)
    # --- related dialect pairs: B after A vs B alone (class tables copied / shared between dialect classes)
    override_coverage(chk)
    pair_found = pair_sweep(chk)
    for first, second, q, alone, after in pair_found[:3]:
        chk.report_violation(f"history:pair:{second}|after:{first}:{abstract_sql(q)}",
                             f"dialect {second} answers {after[:100]!r} after {'every other dialect' if first == '*' else 'dialect ' + first} was used in the same process, {alone[:100]!r} in a fresh process",
                             {"kind": "pair", "first": first, "second": second, "sql": q, "fresh": alone[:400], "after": after[:400]},
                             {"op": "pair", "why": "history"})
    phase["+pairs"] = round(time.time() - t0, 1)
    # --- every family case against a brand-new process: what ran earlier in the same process must not matter
    ref = fresh_reference(family, configs[0][0])
    hist_found = 0
    for c in family:
        chk.count("fresh-ref:" + c[1])
        cid = c[0]
        if cid in reported or hist_found >= 3 or cid not in ref:
            continue  # already reported above / enough replays / a failing history statement (no reference of its own)
        for ci, (hs, order) in enumerate(configs):
            got = outs[ci].get(cid)
            if got == ref[cid]:
                continue
            pos = order.index(next(i for i in ids if cases[i][0] == cid))
            prefix = [cases[i] for i in order[:pos]]
            stem = re.sub(r"[abc]$", "", cid)
            sibs = [x for x in prefix if x[0] != cid and re.sub(r"[abc]$", "", x[0]) == stem]
            hist = None
            for cand in ([[x] for x in sibs] + ([sibs] if len(sibs) > 1 else [])):
                pr, path = spawn(cand + [c], list(range(len(cand) + 1)), hs)
                if collect(pr, path).get(cid) != ref[cid]:
                    hist = cand  # a near-variant that ran earlier is enough
                    break
            if hist is None:
                hist = minimise_history(prefix, c, ref[cid], hs)
            hist_found += 1
            prev = hist[-1] if hist else None
            chk.report_violation(
                f"history:{c[1]}:{abstract_sql(c[2]['sql'])}|after:{prev[1] if prev else '-'}:{abstract_sql(prev[2]['sql']) if prev else '-'}",
                f"{c[1]} answers {str(got)[:100]!r} after {len(hist)} earlier call(s) in the same process, {str(ref[cid])[:100]!r} in a fresh process",
                {"kind": "history", "history": hist, "case": c, "hashseed": hs, "fresh": str(ref[cid])[:400], "in_history": str(got)[:400]},
                {"op": c[1], "why": "history"})
            break
    phase["+fresh-ref"] = round(time.time() - t0, 1)
    n, found = reuse_checks(chk, max(4.0, budget_s - (time.time() - t0)))
    phase["+reuse"] = round(time.time() - t0, 1)
    chk.search_info = {"ran": True, "budget_s": budget_s, "sweep_cases": len(cases), "subprocesses": len(configs),
                       "family_cases_vs_fresh_process": len(family), "tie_family_cases": len(tie), "tie_family_hashseeds": tie_seeds,
                       "tie_family_differences": len(tdiffs), "dialect_pair_differences": len(pair_found), "history_differences": hist_found,
                       "hashseeds": [c[0] for c in configs], "differing_cases": len(diffs), "reuse_calls": n, "reuse_differences": found,
                       "oracle": "byte-identical outputs across PYTHONHASHSEED values and processing orders; reused Parser/Tokenizer/Generator/"
                                 "Dialect/MappingSchema answers equal a fresh object's (also after an exception in the middle of a call)"}


def run(chk) -> None:
    chk.trusted.append("C15: hand-written models Model/Determinism.lean of Simplifier.uniq_sort, helper.tsort, Simplifier.remove_complements "
                       "(operands/nodes as ranks of their text) and of the per-call state as field->value maps (field lists from the translator)")
    chk.assumptions += [
        "operands are identified with the rank of their generated text (uniq_sort de-duplicates on that text)",
        "per-call state = attributes assigned with `self.f = …`; mutation through a stored object's methods is visible only when the "
        "attribute is re-assigned by reset (lists) or is a stored closure called as self.f()",
        "Parser.error_level is written by _try_parse and handed back by its finally block (C14.try_parse_restores_level)",
        "Generator.identify / _quote_json_path_key_using_brackets are toggled and restored by the writer on the normal path only",
        "every other set/dict iteration in the optimizer is covered by the hash-seed sweep only (sampled)",
        "the AST diff (Keep/Move order) is excluded by the property",
        "process-wide state: the writers found by the translator equal the audited allow-list (process_wide_state_ok); what the "
        "audited registries/caches do to results is covered by the fresh-process sweep (sampled)",
    ]
    chk.write_generated(translate(chk))
    proved = chk.prove(MODULES, "Properties.C15", THEOREMS)
    hints = []
    try:
        hints = correspond(chk)
    except HarnessError as e:
        if proved:
            raise
        chk.note(f"model driver unavailable ({e}); continuing with the search on the real code")
    budget = chk.pick(38, 300)
    if chk.broken:
        budget *= 2
    search(chk, hints, budget)


def replay(path: str) -> int:
    sys.path.insert(0, REPO)
    rec = json.load(open(path))
    r = rec.get("replay")
    if not r:
        print(json.dumps(rec, indent=1)[:4000])
        return 1
    if r["kind"] == "shared-node":
        from sqlglot.dialects.dialect import Dialect
        dia = Dialect.get_or_raise(r["dialect"])
        a, b = dia.parse(r["sql"])[0], dia.parse(r["sql"])[0]
        ids = {id(x) for x in a.walk()}
        sh = [x for x in b.walk() if id(x) in ids]
        print("replay:", f"VIOLATES: {len(sh)} node object(s) shared between two parses, e.g. {sh[0]!r:.80}" if sh else "holds")
        return 1 if sh else 0
    if r["kind"] == "reuse-schema":
        import copy
        import logging
        from sqlglot.schema import MappingSchema
        logging.getLogger("sqlglot").setLevel(logging.CRITICAL)
        reused = MappingSchema(copy.deepcopy(r["mapping"]))
        for o in r["history"]:
            schema_op(reused, o)
        a, b = schema_op(MappingSchema(copy.deepcopy(r["mapping"])), r["op"]), schema_op(reused, r["op"])
        print("replay:", f"VIOLATES: fresh {a[:120]!r}, reused after {r['history']} {b[:120]!r}" if a != b else "holds")
        return 1 if a != b else 0
    if r["kind"] == "pair":
        outs = []
        for first in (None, r["first"]):
            case = ["p", "pair", {"first": first, "second": r["second"], "corpus": [r["sql"]], "sql": "pair"}]
            p, path = spawn([case], [0], 0)
            outs.append(collect(p, path).get("p"))
        print("replay:", f"VIOLATES: alone {outs[0]!r}, after {r['first']} {outs[1]!r}" if outs[0] != outs[1] else "holds")
        return 1 if outs[0] != outs[1] else 0
    if r["kind"] == "history":
        cs = r["history"] + [r["case"]]
        p, path = spawn(cs, list(range(len(cs))), r["hashseed"])
        got = collect(p, path).get(r["case"][0])
        p, path = spawn([r["case"]], [0], r["hashseed"])
        fresh = collect(p, path).get(r["case"][0])
        print("replay:", f"VIOLATES: after the history {got!r}, fresh {fresh!r}" if got != fresh else "holds")
        return 1 if got != fresh else 0
    if r["kind"] == "sweep":
        class _C:  # minimal stand-in
            pass
        diffs, outs = sweep(None, [r["case"]], [(r["hashseeds"][0], [0]), (r["hashseeds"][1], [0])])
        print("replay:", "VIOLATES: outputs differ" if diffs else "holds for the isolated case (history-dependent: see replay file)")
        return 1 if diffs else 0
    import sqlglot
    from sqlglot.dialects.dialect import Dialect
    dia = Dialect.get_or_raise(r["dialect"])
    if r["kind"] == "reuse-history":
        import logging
        from sqlglot.errors import ErrorLevel
        logging.getLogger("sqlglot").setLevel(logging.CRITICAL)
        m = re.search(r"(?:error_level|unsupported_level)=(\w+)", r.get("extra", ""))
        level = ErrorLevel[m.group(1)] if m else ErrorLevel.WARN

        def obs(fn):
            try:
                return fn()
            except Exception as e:  # noqa
                return "EXC:" + type(e).__name__ + ":" + str(e)[:150]

        if r["component"] == "Parser":
            reused = dia.parser(error_level=level)
            obs(lambda: reused.parse(dia.tokenize(r["history"]), r["history"]))
            if r["sql"].startswith("<attribute"):
                a, b = level.name, reused.error_level.name
            else:
                a = obs(lambda: [repr(t) for t in dia.parser(error_level=level).parse(dia.tokenize(r["sql"]), r["sql"])])
                b = obs(lambda: [repr(t) for t in reused.parse(dia.tokenize(r["sql"]), r["sql"])])
        else:
            ident = "identify=True" in r.get("extra", "")
            opts = {"unsupported_level": ErrorLevel.IMMEDIATE, "identify": ident}
            reused = dia.generator(**opts)
            obs(lambda: reused.generate(sqlglot.parse_one(r["history"])))
            pt = sqlglot.parse_one(r["sql"])
            a, b = obs(lambda: dia.generator(**opts).generate(pt)), obs(lambda: reused.generate(pt))
        print("replay:", f"VIOLATES: fresh {str(a)[:120]!r}, reused after the history {str(b)[:120]!r}" if a != b else "holds")
        return 1 if a != b else 0
    if r["component"] == "Generator":
        tree = sqlglot.parse_one(r["sql"])
        g = dia.generator()
        a, b = g.generate(tree), g.generate(tree)
        print("replay:", f"VIOLATES: {a!r} then {b!r}" if a != b else "holds")
        return 1 if a != b else 0
    print(json.dumps(r, indent=1)[:2000])
    return 1


if __name__ == "__main__":
    if len(sys.argv) == 3 and sys.argv[1] == "--worker":
        worker_main(sys.argv[2])
    elif len(sys.argv) == 3 and sys.argv[1] == "--forkserver":
        forkserver_main(sys.argv[2])
