"""C13 — Source positions of tokens, nodes and errors point at the text they describe (DESIGN.md §4 C13).

translate : per-dialect delimiter tables + the base tokenizer configuration (live classes) and two behavioural flags
            (is the lone-CR fast path repaired?  is the multi-word-keyword jump repaired?) -> Generated/C13.lean
prove     : Properties/C13.lean — position invariant of `_advance`, token ordering / bounds / coverage, line-col agreement,
            highlight_sql selects s[a..b]; witnesses for the two clean-tree defects
correspond: real TokenizerCore vs Model/Lex.lean on generated inputs (all six token fields, TokenError window),
            real highlight_sql vs the model, the Lean reference line/col vs the harness' reference
search    : the property's own oracle on the real code, all dialects
"""

from __future__ import annotations

import json
import os
import re
import time
import zlib

from vf.core import Check, REPO, HarnessError, lean_str, lean_bool

MODULES = ["Model.Lex", "Proofs.Lex", "Proofs.LexRun", "Proofs.LexSkew", "Proofs.LexSpans", "Generated.C13", "Properties.C13"]
P = "SqlglotModel.Properties.C13."
THEOREMS = [P + n for n in [
    # cursor arithmetic
    "advance_pinv",
    "advance_one_pinv",
    "advance_skew_mono",
    "advance_alnum_pinv",
    "retreat_pinv",
    "fast_path_position_exact",
    "fast_string_pinv",
    "fast_string_exact_when_fixed",
    # per-step facts about _add and the phase discipline
    "line_col_agree",
    "token_text_is_slice",
    "advance_keeps_phase",
    "tokens_ordered",
    "tokens_inside",
    "next_iteration_phase",
    # whole runs of lex
    "lex_tokens_ordered",
    "lex_tokens_inside",
    "lex_line_col_agree",
    "lex_never_skews",
    "lex_line_col_exact",
    "base_cfg_clean",
    "gaps_are_space_or_comment",
    "comment_spans_start_with_delimiter",
    "lex_consumes_input",
    "lex_progress",
    "ascii_wf",
    # positions reported later
    "raise_error_token_priority",
    "raise_error_selects_token",
    "raise_error_on_lexed_token",
    "update_positions_token",
    "update_positions_copy",
    "meta_selects_lexeme",
    "generated_positions_shape_ok",
    "merged_span_is_first_start_last_end",
    "merged_span_covers_tokens",
    "merged_span_line_witness",
    "update_positions_keyword_form_ok",
    "parser_delegates_pass_sql",
    "raise_error_dropped_sql_witness",
    # highlight_sql
    "highlight_selects",
    "highlight_context_bounds",
    # witnesses and table facts
    "fast_string_lone_cr_witness",
    "fast_string_fixed_witness",
    "keyword_jump_break_witness",
    "generated_delims_ok",
    "generated_flags_consistent",
]]


# =========================================================================================== the real side
def sg():
    import sqlglot
    from sqlglot import exp
    from sqlglot.dialects.dialect import Dialect, Dialects
    from sqlglot.tokens import TokenType
    from sqlglot.errors import TokenError, ParseError, ErrorLevel, highlight_sql

    return sqlglot, exp, Dialect, Dialects, TokenType, TokenError, ParseError, ErrorLevel, highlight_sql


def all_dialects() -> list:
    """the Dialects enum united with sqlglot.dialects.DIALECT_MODULE_NAMES (the enum has no singlestore entry)"""
    *_, Dialects, _, _, _, _, _ = sg()
    import sqlglot.dialects as D

    names = {d.value for d in Dialects if d.value} | set(getattr(D, "DIALECT_MODULE_NAMES", []))
    return [None] + sorted(names)


_TOK_CACHE: dict = {}


def tok_class(d):
    if d not in _TOK_CACHE:
        _, _, Dialect, *_ = sg()
        dl = Dialect.get_or_raise(d)
        _TOK_CACHE[d] = (dl, dl.tokenizer_class)
    return _TOK_CACHE[d]


# ------------------------------------------------------------------------------------------- reference positions
def ref_positions(sql: str):
    """line/col of every character offset, written independently of the tokenizer:
    a line break is LF, or CR not followed by LF; line = 1 + breaks before p; col = 1 + offset in line."""
    n = len(sql)
    line, col = [], []
    ln, ls = 1, 0
    for p, ch in enumerate(sql):
        line.append(ln)
        # same convention as the proved statement (Proofs/Lex.lean: LC, crlfAdj): the LF of a CRLF pair has the column of its CR
        col.append(p - ls + 1 - (1 if ch == "\n" and p > 0 and sql[p - 1] == "\r" else 0))
        if ch == "\n" or (ch == "\r" and not (p + 1 < n and sql[p + 1] == "\n")):
            ln += 1
            ls = p + 1
    return line, col


def has_lone_cr(s: str) -> bool:
    return any(ch == "\r" and not (i + 1 < len(s) and s[i + 1] == "\n") for i, ch in enumerate(s))


def gap_ok(T, gap: str) -> bool:
    """gap = whitespace and complete comments of the dialect (block comments may end at any later end delimiter)."""
    if not gap or gap.isspace():
        return True
    starts = sorted(T._COMMENTS, key=len, reverse=True)
    n = len(gap)
    memo: dict = {}

    def go(i):
        while i < n and gap[i].isspace():
            i += 1
        if i >= n:
            return True
        if i in memo:
            return memo[i]
        memo[i] = False
        r = False
        for s in starts:
            if gap.startswith(s, i):
                e = T._COMMENTS[s]
                if e is None:
                    j = i
                    while j < n and gap[j] not in "\r\n":
                        j += 1
                    r = go(j)
                else:
                    j = gap.find(e, i + len(s))
                    while j != -1 and not r:
                        r = go(j + len(e))
                        j = gap.find(e, j + 1)
                if r:
                    break
        memo[i] = r
        return r

    return go(0)


def fold_ws(s: str) -> str:
    return re.sub(r"\s+", " ", s)


def stringy_types():
    TT = sg()[4]
    return {TT.STRING, TT.NATIONAL_STRING, TT.RAW_STRING, TT.HEREDOC_STRING, TT.BIT_STRING, TT.HEX_STRING,
            TT.BYTE_STRING, TT.UNICODE_STRING, TT.IDENTIFIER}


def token_violation(sql: str, d, toks=None):
    """The token clauses of the property on the real tokenizer.  Returns None or (kind, cause, index, detail).
    Only the FIRST failing token is reported (later ones are usually consequences)."""
    TT = sg()[4]
    TokenError = sg()[5]
    dl, T = tok_class(d)
    if toks is None:
        try:
            toks = dl.tokenize(sql)
        except TokenError as e:
            return token_error_violation(sql, e)
    line, col = ref_positions(sql)
    n = len(sql)
    STRINGY = stringy_types()
    prev = None
    heredoc_starts = {k for k, v in T._FORMAT_STRINGS.items() if v[1] == TT.HEREDOC_STRING}
    real = []
    for i, t in enumerate(toks):
        # zero-text marker tokens (Athena's HIVE_TOKEN_STREAM) describe no text: exempt, counted by the caller
        if t.token_type in (TT.HIVE_TOKEN_STREAM, TT.SENTINEL) and t.text == "":
            continue
        real.append((i, t))
    for k, (i, t) in enumerate(real):
        lex = sql[t.start:t.end + 1] if 0 <= t.start <= t.end < n else ""
        is_cmd_string = (t.token_type == TT.STRING and prev is not None and prev.token_type in T.COMMANDS
                         and not (lex[:1] in T._QUOTES and len(lex) >= 2 and lex.endswith(T._QUOTES.get(lex[:1], "\0"))
                                  and fold_ws(sql[prev.end + 1:t.start]).strip() == ""))
        cause = "command-string" if is_cmd_string else ""
        if not (0 <= t.start <= t.end < n):
            return ("bounds", cause, i, f"token {t!r} outside the input of length {n}")
        synthetic = (prev is not None and t.start == prev.start and t.end == prev.end and bool(T.NUMERIC_LITERALS)
                     and (prev.token_type == TT.NUMBER and t.token_type == TT.DCOLON or prev.token_type == TT.DCOLON))
        if prev is not None and not synthetic:
            if t.start <= prev.end:
                return ("order", cause, i, f"token {t!r} starts before the previous token ends ({prev!r})")
            gap = sql[prev.end + 1:t.start]
            if not gap_ok(T, gap):
                return ("gap", cause, i, f"text between tokens {i - 1} and {i} is not whitespace/comment: {gap!r}")
        if (t.line, t.col) != (line[t.end], col[t.end]):
            c = cause
            if not c:
                if t.token_type == TT.HEREDOC_STRING and re.match(r"(\$[^$]*[\r\n][^$]*\$)", lex):
                    c = "heredoc-tag-spans-break"
                elif t.token_type in STRINGY and re.search(r"\\[\r\n]", lex) and T._ESCAPE_FOLLOW_CHARS:
                    c = "escape-skips-break"
                elif t.token_type in STRINGY and has_lone_cr(lex[:-1]):
                    c = "lone-cr-literal"
                elif t.token_type not in STRINGY and any(ch in "\r\n" for ch in lex[:-1]):
                    c = "kw-spans-break"
                elif (T.HEREDOC_TAG_IS_IDENTIFIER and t.token_type == T.HEREDOC_STRING_ALTERNATIVE
                      and any(lex.startswith(h) for h in heredoc_starts)):
                    c = "heredoc-tag-retreat"
            return ("linecol", c, i, f"token {i} {t.token_type.name} {t.text!r} reports line {t.line} col {t.col}; its end offset "
                                     f"{t.end} is line {line[t.end]} col {col[t.end]}")
        if t.token_type not in STRINGY and t.token_type != TT.NUMBER and not synthetic:
            if fold_ws(lex).upper() != fold_ws(t.text).upper():
                return ("text", cause, i, f"token {i} {t.token_type.name} has text {t.text!r} but its span selects {lex!r}")
        prev = t
    if real:
        first, last = real[0][1], real[-1][1]
        if not gap_ok(T, sql[:first.start]):
            return ("gap", "leading", real[0][0], f"text before the first token is not whitespace/comment: {sql[:first.start]!r}")
        if not gap_ok(T, sql[last.end + 1:]):
            cause = "command-string" if (len(real) > 1 and real[-2][1].token_type in T.COMMANDS and last.token_type == TT.STRING) else "trailing"
            return ("gap", cause, real[-1][0], f"text after the last token is not whitespace/comment: {sql[last.end + 1:]!r}")
    return None


def token_error_violation(sql: str, e):
    s, en = getattr(e, "start", None), getattr(e, "end", None)
    if s is None or en is None:
        return ("tokenerror", "nopos", -1, f"TokenError without start/end: {e}")
    if not (0 <= s <= en <= len(sql)):
        return ("tokenerror", "bounds", -1, f"TokenError window [{s},{en}) outside the input of length {len(sql)}")
    m = re.match(r"Error tokenizing '(.*)'$", str(e), re.S)
    if not m or m.group(1) != sql[s:en]:
        return ("tokenerror", "context", -1, f"TokenError window [{s},{en}) selects {sql[s:en]!r}, message says {str(e)!r}")
    return None


def meta_tree_violation(sql: str, bypos: dict, trees):
    """every node of the parsed trees that carries position meta selects its own lexeme (see parse_violation)"""
    _, exp, *_ = sg()
    for tree in trees or []:
        if tree is None:
            continue
        for node in tree.walk():
            m = node._meta
            if not m or "start" not in m or m.get("start") is None:
                continue
            # EVERY node that carries position meta, whatever its class: the recorded span must be a token of the input
            cls = type(node).__name__
            ts = [t for t in bypos.get((m["start"], m["end"]), []) if t.line == m.get("line") and t.col == m.get("col")]
            t = ts[0] if ts else None
            if t is None:
                # a parser-side merge of several adjacent tokens: the span is [first.start, last.end] and, by the tokenizer's
                # convention (line/col describe the LAST character), line/col are those of the last token
                firsts = [x for xs in bypos.values() for x in xs if x.start == m["start"]]
                lasts = [x for xs in bypos.values() for x in xs if x.end == m["end"]]
                if firsts and lasts and firsts[0].end < lasts[0].start:
                    a, b = firsts[0], lasts[0]
                    if (m.get("line"), m.get("col")) != (b.line, b.col):
                        cause = "merge-line" if (m.get("line"), m.get("col")) == (a.line, b.col) else "pos"
                        return ("meta", cause, -1, f"{cls} meta {m} spans tokens {a.text!r}..{b.text!r} but its line/col are not those "
                                                   f"of the span's last character (line {b.line} col {b.col})")
                    want = meta_lexeme(exp, node)
                    norm = re.sub(r"[\s`\"\[\]]", "", sql[m["start"]:m["end"] + 1]).upper()
                    if want is not None and re.sub(r"[\s`\"\[\]]", "", want).upper() != norm:
                        return ("meta", "merged-name" if isinstance(node, exp.Identifier) else "lexeme", -1,
                                f"{cls} {want!r} carries the multi-token span {sql[m['start']:m['end'] + 1]!r}")
                    continue
                cause = "pos"
                if (isinstance(node, exp.Star) and (m.get("line"), m.get("col"), m["start"], m["end"]) == (1, 1, 0, 0)
                        and sql[:1] != "*"):
                    cause = "synthetic-star"  # a Star built by parsing the one-character text "*" (FROM-first / pipe syntax)
                return ("meta", cause, -1, f"{cls} meta {m} does not coincide with a token span")
            # classes with an obvious lexeme: the token the span selects must be that lexeme
            want = meta_lexeme(exp, node)
            if want is not None and not any(x.text == want or x.text.upper() == want.upper() for x in ts):
                cause = "name" if isinstance(node, exp.Identifier) else "lexeme"
                if isinstance(node, exp.Identifier) and want.upper().startswith("INFORMATION_SCHEMA."):
                    cause = "merged-name"  # the INFORMATION_SCHEMA.<view> identifier must carry the span of both parts
                if (isinstance(node, exp.Star) and (m.get("line"), m.get("col"), m["start"], m["end"]) == (1, 1, 0, 0)
                        and sql[:1] != "*"):
                    cause = "synthetic-star"  # the default span happens to coincide with a one-character first token
                return ("meta", cause, -1, f"{cls} {want!r} carries the span of lexeme {sql[t.start:t.end + 1]!r} "
                                           f"(line {m.get('line')} col {m.get('col')} start {m['start']} end {m['end']})")
    return None


def meta_lexeme(exp, node):
    """the lexeme a node with position meta claims to describe, for the classes where that is unambiguous (else None)"""
    if isinstance(node, exp.Identifier):
        return node.this if isinstance(node.this, str) else None
    if isinstance(node, exp.Star):
        return "*"
    if isinstance(node, exp.Literal):
        return node.this if isinstance(node.this, str) else None
    if isinstance(node, exp.Column):
        if isinstance(node.this, exp.Star):
            return "*"
        return node.name or None
    if isinstance(node, exp.Table):
        return node.name or None
    if isinstance(node, (exp.Var, exp.Anonymous)):
        return node.this if isinstance(node.this, str) else None
    return None


def parse_violation(sql: str, d):
    """ParseError line/col/highlight select a lexeme; meta positions of identifiers/columns/tables select their lexeme."""
    _, exp, _, _, TT, TokenError, ParseError, ErrorLevel, _ = sg()
    dl, T = tok_class(d)
    try:
        toks = dl.tokenize(sql)
    except TokenError:
        return None
    if token_violation(sql, d, toks) is not None:
        return None  # token-level defects are reported by the token oracle; positions built on them are not re-reported
    bypos: dict = {}  # span -> tokens (a numeric suffix yields three tokens on one span)
    for t in toks:
        if not (t.token_type == TT.HIVE_TOKEN_STREAM and t.text == ""):
            bypos.setdefault((t.start, t.end), []).append(t)
    ctx = 100
    for level in (ErrorLevel.RAISE, ErrorLevel.IMMEDIATE):
        p = dl.parser(error_level=level)
        try:
            trees = p.parse(list(toks), sql)
        except ParseError as e:
            for err in e.errors:
                ln, co, hl = err.get("line"), err.get("col"), err.get("highlight")
                sc, ec = err.get("start_context"), err.get("end_context")
                if ln is None and co is None and hl is None:
                    continue
                cands = [t for ts in bypos.values() for t in ts if t.line == ln and t.col == co]
                ok = False
                for t in cands:
                    if hl == sql[t.start:t.end + 1] and sc == sql[max(0, t.start - ctx):t.start] and ec == sql[t.end + 1:t.end + 1 + ctx]:
                        ok = True
                if not ok and (not toks or (has_empty_chunk(TT, [t for t in toks if not (t.token_type == TT.HIVE_TOKEN_STREAM and t.text == "")])
                                            and (ln, co, hl, sc, ec) == (1, 1, sql[0:1], "", sql[1:1 + ctx]))):
                    ok = True  # a statement without any token: raise_error's documented fallback Token.string("") = start of the text
                if not ok:
                    cause = "hint-subparse" if any(t.token_type == TT.HINT for t in toks) else ""
                    return ("parseerror", cause, -1, f"ParseError line {ln} col {co} highlight {hl!r} (context {sc!r} | {ec!r}) does not select a lexeme "
                                                  f"at that line/column of the input")
            continue
        except Exception:
            continue  # other exception kinds are C05's business
        v = meta_tree_violation(sql, bypos, trees)
        if v is not None:
            return v
    return None


# ------------------------------------------------------------------------------------------- public entry points
_OVERRIDES: dict = {}


def override_dialects() -> dict:
    """dialects whose Parser / Tokenizer / Dialect class overrides parse, parse_into, _parse or tokenize (by introspection)"""
    if _OVERRIDES:
        return _OVERRIDES
    _, _, Dialect, *_ = sg()
    from sqlglot.parser import Parser
    from sqlglot.tokens import Tokenizer

    for d in all_dialects():
        if d is None:
            continue
        dl = Dialect.get_or_raise(d)
        why = []
        for m in ("parse", "parse_into", "_parse", "raise_error"):
            if getattr(dl.parser_class, m, None) is not getattr(Parser, m, None):
                why.append("Parser." + m)
        if dl.tokenizer_class.tokenize is not Tokenizer.tokenize:
            why.append("Tokenizer.tokenize")
        for m in ("parse", "parse_into", "tokenize", "tokenizer", "parser"):
            if getattr(type(dl), m) is not getattr(Dialect, m):
                why.append("Dialect." + m)
        if why:
            _OVERRIDES[d] = why
    _OVERRIDES.setdefault("__done__", [])
    return _OVERRIDES


def override_names() -> list:
    return [k for k in override_dialects() if k != "__done__"]


def into_types():
    _, exp, *_ = sg()
    from sqlglot.parser import Parser

    return [T for T in (exp.Select, exp.Condition, exp.Table) if T in Parser.EXPRESSION_PARSERS]


def entry_points(d):
    """every public entry point that can raise a positioned ParseError, as (name, callable(sql))"""
    sqlglot, exp, Dialect, *_ = sg()
    dl, _ = tok_class(d)
    out = [("parse", lambda s: sqlglot.parse(s, read=d)),
           ("parse_one", lambda s: sqlglot.parse_one(s, read=d)),
           ("Dialect.parse", lambda s: dl.parse(s)),
           ("transpile", lambda s: sqlglot.transpile(s, read=d, write=d))]
    for T in into_types():
        out.append((f"parse_one(into={T.__name__})", lambda s, T=T: sqlglot.parse_one(s, read=d, into=T)))
        out.append((f"Dialect.parse_into({T.__name__})", lambda s, T=T: dl.parse_into(T, s)))
        out.append((f"maybe_parse(into={T.__name__})", lambda s, T=T: exp.maybe_parse(s, into=T, dialect=d)))
    return out


def has_empty_chunk(TT, toks) -> bool:
    """Parser._parse splits the token list at semicolons; is one of the statement chunks empty?  (then raise_error has no
    token, _curr or _prev to describe and falls back to Token.string("") = line 1, col 1, offset 0)"""
    chunks = [[]]
    total = len(toks)
    for i, t in enumerate(toks):
        if t.token_type == TT.SEMICOLON:
            if t.comments:
                chunks.append([t])
            if i < total - 1:
                chunks.append([])
        else:
            chunks[-1].append(t)
    return any(not c for c in chunks)


def entry_violation(sql: str, d):
    """the ParseError clause at EVERY public entry point: each positioned error dict selects, in the statement text, a lexeme
    at the reported line/col: highlight == sql[start:end+1] and the contexts are the surrounding text"""
    _, exp, _, _, TT, TokenError, ParseError, ErrorLevel, _ = sg()
    dl, T = tok_class(d)
    try:
        toks = dl.tokenize(sql)
    except TokenError:
        return None
    if token_violation(sql, d, toks) is not None:
        return None
    real = [t for t in toks if not (t.token_type == TT.HIVE_TOKEN_STREAM and t.text == "")]
    has_hint = any(t.token_type == TT.HINT for t in toks)
    ctx = 100
    bypos: dict = {}
    for t in real:
        bypos.setdefault((t.start, t.end), []).append(t)
    for name, fn in entry_points(d):
        try:
            res = fn(sql)
            trees = res if isinstance(res, list) else [res]
            trees = [x for x in trees if isinstance(x, exp.Expr)]
            if trees and name != "parse":
                v = meta_tree_violation(sql, bypos, trees)
                if v is not None:
                    return (v[0], v[1], v[2], name + ": " + v[3])
        except ParseError as e:
            for err in e.errors:
                ln, co, hl = err.get("line"), err.get("col"), err.get("highlight")
                sc, ec = err.get("start_context"), err.get("end_context")
                if ln is None and co is None and hl is None:
                    continue
                ok = not real
                if has_empty_chunk(TT, real) and (ln, co, hl, sc, ec) == (1, 1, sql[0:1], "", sql[1:1 + ctx]):
                    ok = True  # a statement without any token: raise_error's documented fallback Token.string("") = start of the text
                for t in real:
                    if (t.line == ln and t.col == co and hl == sql[t.start:t.end + 1]
                            and sc == sql[max(0, t.start - ctx):t.start] and ec == sql[t.end + 1:t.end + 1 + ctx]):
                        ok = True
                        break
                if not ok:
                    cause = "hint-subparse" if has_hint else "entry:" + name
                    return ("parseerror", cause, -1, f"{name}: ParseError line {ln} col {co} highlight {hl!r} (context {sc!r} | {ec!r}) does "
                                                     f"not select a lexeme at that line/column of the statement text")
        except Exception:
            continue
    return None


ERROR_INPUTS = ["select a from", "select a,\n from t where", "select * from t where (a = 1", "a +", "select a from t join",
                "insert into t values (1,", "select cast(a as) from t", "create table t (a int, b", "alter table t add columns (a int",
                "select a from t where b in (1, 2", "drop table if", "select 'x' ||"]


def check_sql_premise(chk: Check) -> list:
    """Premise of raise_error_on_lexed_token / meta_selects_lexeme on the REAL parser object: whenever raise_error runs,
    `self.sql` is the statement text the tokens were lexed from — at every public entry point, for every dialect that
    overrides parse / parse_into / tokenize and a sample of the others."""
    from sqlglot.parser import Parser

    rng = chk.rng
    others = [d for d in all_dialects() if d not in override_names()]
    dialects = override_names() + [None] + rng.sample([d for d in others if d], chk.pick(4, len(others) - 1))
    seen: list = []
    orig = Parser.raise_error

    def spy(self, *a, **k):
        seen.append(self.sql)
        return orig(self, *a, **k)

    bad = []
    Parser.raise_error = spy
    try:
        for d in dialects:
            for sql in ERROR_INPUTS:
                for name, fn in entry_points(d):
                    del seen[:]
                    try:
                        fn(sql)
                    except Exception:
                        pass
                    chk.corr_cases += 1
                    chk.count("premise:" + ("raised" if seen else "no-error"))
                    wrong = [x for x in seen if x != sql]
                    if wrong and not any(b[0] == d and b[2] == name for b in bad):
                        bad.append((d, sql, name, wrong[0]))
    finally:
        Parser.raise_error = orig
    for d, sql, name, got in bad[:4]:
        chk.correspondence_broken("premise of raise_error_on_lexed_token fails on the real parser: parser.sql is not the statement text "
                                  "the tokens were lexed from", {"dialect": d, "entry_point": name, "sql": sql, "parser.sql": got})
    chk.cov["sql_premise"] = {"dialects": [d or "base" for d in dialects], "entry_points": len(entry_points(None)),
                              "inputs": len(ERROR_INPUTS), "violations": len(bad)}
    return [(d, sql) for d, sql, _, _ in bad]


def merge_line_probe() -> bool:
    """does the INFORMATION_SCHEMA merge record the line of the LAST part (repaired) or of the first part?"""
    sqlglot, exp, *_ = sg()
    try:
        t = sqlglot.parse_one("select * from INFORMATION_SCHEMA\n.TABLES", read="bigquery")
        for n in t.find_all(exp.Identifier):
            if n.name.upper() == "INFORMATION_SCHEMA.TABLES":
                return n.meta.get("line") == 2
    except Exception:
        pass
    return False


def update_positions_keyword_branch(chk: Check) -> list:
    """the statements of update_positions' keyword (`other is None`) branch, as source text"""
    import ast

    try:
        src = open(os.path.join(REPO, "sqlglot", "expressions", "core.py"), encoding="utf-8").read()
        tree = ast.parse(src)
        for fn in ast.walk(tree):
            if isinstance(fn, ast.FunctionDef) and fn.name == "update_positions" and not (
                    len(fn.body) and isinstance(fn.body[-1], ast.Raise)):
                top = [st for st in fn.body if isinstance(st, ast.If)]
                node = top[0]
                while node.orelse and len(node.orelse) == 1 and isinstance(node.orelse[0], ast.If):
                    node = node.orelse[0]
                return [ast.unparse(st) for st in node.orelse]
    except Exception as e:  # noqa
        chk.broken.append({"kind": "translator", "what": f"C13 translator: structure changed: update_positions not recognised ({e!r})"})
    chk.broken.append({"kind": "translator", "what": "C13 translator: structure changed: update_positions keyword branch not found"})
    return []


def position_merge_sites(chk: Check) -> list:
    """every call of update_positions in the keyword form (line= / col= / start= / end=) in parser.py and parsers/*.py:
    (site, sorted keyword names)"""
    import ast
    import glob

    rows = []
    for f in [os.path.join(REPO, "sqlglot", "parser.py")] + sorted(glob.glob(os.path.join(REPO, "sqlglot", "parsers", "*.py"))):
        tree = ast.parse(open(f, encoding="utf-8").read())
        for fn in ast.walk(tree):
            if isinstance(fn, ast.FunctionDef):
                for c in ast.walk(fn):
                    if (isinstance(c, ast.Call) and isinstance(c.func, ast.Attribute) and c.func.attr == "update_positions"
                            and any(k.arg in POS_KEYS for k in c.keywords)):
                        rows.append((os.path.relpath(f, REPO) + ":" + fn.name, sorted(k.arg for k in c.keywords if k.arg)))
    return sorted(rows)


def delegate_table(chk: Check) -> list:
    """every call `.parse(..)` / `.parse_into(..)` / `._parse(..)` made from a function that has a `sql` parameter, in parser.py,
    parsers/*.py, dialects/*.py and sqlglot/__init__.py: (site, callee, does it hand `sql` on?)"""
    import ast
    import glob

    files = [os.path.join(REPO, "sqlglot", "parser.py"), os.path.join(REPO, "sqlglot", "__init__.py")]
    files += sorted(glob.glob(os.path.join(REPO, "sqlglot", "parsers", "*.py")))
    files += sorted(glob.glob(os.path.join(REPO, "sqlglot", "dialects", "*.py")))
    rows = []
    for f in files:
        try:
            tree = ast.parse(open(f, encoding="utf-8").read())
        except Exception as e:  # noqa
            chk.broken.append({"kind": "translator", "what": f"C13 translator: cannot parse {f}: {e!r}"})
            continue
        for fn in ast.walk(tree):
            if not isinstance(fn, (ast.FunctionDef, ast.AsyncFunctionDef)):
                continue
            if not any(a.arg == "sql" for a in fn.args.args + fn.args.kwonlyargs):
                continue
            for c in ast.walk(fn):
                if isinstance(c, ast.Call) and isinstance(c.func, ast.Attribute) and c.func.attr in ("parse", "parse_into", "_parse"):
                    passes = (any(isinstance(a, ast.Name) and a.id == "sql" for a in c.args)
                              or any(isinstance(k.value, ast.Name) and k.value.id == "sql" for k in c.keywords))
                    rows.append((os.path.relpath(f, REPO) + ":" + fn.name, ast.unparse(c.func), passes))
    rows.sort()
    if not any(r[0].startswith("sqlglot/parser.py:parse") for r in rows) or not any("dialect.py:parse" in r[0] for r in rows):
        chk.broken.append({"kind": "translator", "what": "C13 translator: structure changed: Parser.parse / Dialect.parse delegate calls not found"})
    chk.cov["parser_delegates"] = len(rows)
    return rows


# ------------------------------------------------------------------------------------------- minimise + skeleton
def ddmin_chars(sql: str, pred) -> str:
    """1-minimal (w.r.t. deleting contiguous chunks) string for which pred still holds."""
    assert pred(sql)
    n = 2
    while len(sql) >= 2:
        chunk = max(1, len(sql) // n)
        reduced = False
        for i in range(0, len(sql), chunk):
            cand = sql[:i] + sql[i + chunk:]
            if cand and pred(cand):
                sql = cand
                n = max(n - 1, 2)
                reduced = True
                break
        if not reduced:
            if chunk == 1:
                break
            n = min(n * 2, len(sql))
    # windows of 2..8 characters at every offset (paired delimiters cannot be deleted one character at a time)
    changed = True
    while changed and len(sql) <= 120:
        changed = False
        for w in (8, 7, 6, 5, 4, 3, 2, 1):
            for i in range(0, max(0, len(sql) - w) + 1):
                cand = sql[:i] + sql[i + w:]
                if cand and len(cand) < len(sql) and pred(cand):
                    sql = cand
                    changed = True
                    break
            if changed:
                break
    return sql


WS_NAMES = {" ": "_", "\t": "T", "\n": "N", "\r": "R"}


def skeleton(sql: str, d) -> str:
    _, T = tok_class(d)
    kw_words = set()
    for k in T.KEYWORDS:
        for w in k.split(" "):
            if w.isalpha():
                kw_words.add(w.upper())
    out = []
    i, n = 0, len(sql)
    while i < n:
        ch = sql[i]
        if ch in WS_NAMES:
            out.append("<" + WS_NAMES[ch] + ">")
            i += 1
        elif ch.isspace():
            out.append("<S>")
            i += 1
        elif ch.isalnum() or ch == "_":
            j = i
            while j < n and (sql[j].isalnum() or sql[j] == "_"):
                j += 1
            w = sql[i:j]
            if w.upper() in kw_words and w.isascii():
                out.append(w.upper())
            elif w.isdigit():
                out.append("n")
            elif w.isascii():
                out.append("id")
            else:
                out.append("uid")
            i = j
        else:
            out.append(ch if ch.isascii() else "u")
            i += 1
    return "".join(out)


_REPORTED: dict = {}


def report(chk: Check, sql: str, d, v, which: str):
    """minimise, key and report one violation found by `which` in ('tokens', 'parse', 'entry')."""
    kind, cause = v[0], v[1]
    # a cause already matched by a known finding several times is not minimised again and again (the search budget is for new ones)
    if cause and _REPORTED.get((id(chk), kind, cause, d), 0) >= 3 and any(
            k.get("property") == "C13" and k.get("kind") == "known" for k, _ in chk.known_hits):
        if not any(vv["key"].startswith(f"{kind}:{cause}|") for vv in chk.violations):
            return
    _REPORTED[(id(chk), kind, cause, d)] = _REPORTED.get((id(chk), kind, cause, d), 0) + 1
    fn = {"tokens": token_violation, "parse": parse_violation, "entry": entry_violation}[which]

    def pred(s):
        try:
            r = fn(s, d)
        except Exception:
            return False
        return r is not None and r[0] == kind and r[1] == cause

    small = ddmin_chars(sql, pred) if len(sql) <= 400 else sql
    v2 = fn(small, d)
    key = f"{kind}:{cause}|{skeleton(small, d)}"
    chk.report_violation(key, v2[3], {"sql": small, "dialect": d, "oracle": which, "original_sql": sql},
                         context={"cause": cause, "dialect": d or "base"})


# =========================================================================================== generators
WORDS = ["select", "SELECT", "from", "where", "a", "b", "tbl", "x1", "_c", "é", "日本", "Straße", "ſ", "group by", "GROUP  BY",
         "order\nby", "GROUP\r\nBY", "is not", "not  in", "union all", "show", "SHOW", "fetch", "as", "and", "case", "end", "null"]
NUMS = ["1", "23", "1.5", "1e5", "1E-3", "0x1F", "0b1", "0B", "1_000", "12ab", "1L", "2.5bd", ".5", "1.", "1..2", "1e", "1e+", "007"]
STRS = ["'s'", "''", "'a''b'", "'a\\'b'", "'a\\\\'", "\"q\"", "\"a\"\"b\"", "`bq`", "[br]", "n'x'", "N'y'", "x'1F'", "X'zz'", "b'01'",
        "e'a\\n'", "r'a\\b'", "R\"x\"", "u&'x'", "'''t'''", "\"\"\"t\"\"\"", "$$x$$", "$t$y$t$", "$1", "$a", "'a\rb'", "'a\nb'", "'a\r\nb'",
        "\"a\rb\"", "'a\n\nb\rc'", "'é\n日'", "`a\nb`", "'\t'", "'a\\\nb'", "b'a\\\nb'", "r'''a\nb'''"]
OPS = ["(", ")", ",", ".", "*", "+", "-", "/", "<=", ">=", "<>", "!=", "||", "::", "->", "->>", "@", "$", ";", "?", ":p", "@v", "{", "}",
       "[", "]", "\\", "=", "<", ">", "%", "&", "|", "^", "~", "#", ":=", "=>", "<=>", "&&", "??", "|/", "||/", "@>", "<@", "-|-", "~~", "!~"]
COMMENTS = ["--c", "-- c\n", "-- é\r\n", "--\r", "/* c */", "/* a\nb */", "/* a\r\nb */", "/* a\rb */", "/*+ h */", "/* /* n */ */", "#c\n",
            "// c\n", "{# j #}", "{# j\n#}", "/**/", "/* é */", "#!c\n"]
BROKEN = ["'", "\"", "/*", "`", "[", "'abc", "\"abc", "/* abc", "$t$abc", "x'", "{#", "'a\\"]
SEPS = ["", " ", " ", " ", "\n", "\r\n", "\r", "\t", "  ", " \n ", "\n\n"]


def gen_soup(rng, broken_p=0.08) -> str:
    k = rng.randint(1, 10)
    parts = []
    for _ in range(k):
        r = rng.random()
        if r < 0.34:
            parts.append(rng.choice(WORDS))
        elif r < 0.46:
            parts.append(rng.choice(NUMS))
        elif r < 0.64:
            parts.append(rng.choice(STRS))
        elif r < 0.82:
            parts.append(rng.choice(OPS))
        elif r < 1 - broken_p:
            parts.append(rng.choice(COMMENTS))
        else:
            parts.append(rng.choice(BROKEN))
        parts.append(rng.choice(SEPS))
    return "".join(parts)


def delimiter_atoms(T) -> list:
    """every string/identifier/comment delimiter and prefix of the dialect, instantiated with multi-line content"""
    out = []
    bodies = ["x", "", "a b", "a\nb", "a\r\nb", "é日", "a\tb", "1F", "01"]
    for s, e in T._QUOTES.items():
        out += [s + b + e for b in bodies]
    for s, (e, _) in T._FORMAT_STRINGS.items():
        out += [s + b + (e or " ") for b in bodies]
    for s, e in T._IDENTIFIERS.items():
        out += [s + b + e for b in bodies]
    for s, e in T._COMMENTS.items():
        out += [s + b + (e if e is not None else "\n") for b in bodies]
    return out


_DELIM_CACHE: dict = {}


def gen_dialect_soup(rng, d) -> str:
    _, T = tok_class(d)
    if d not in _DELIM_CACHE:
        _DELIM_CACHE[d] = delimiter_atoms(T)
    atoms = _DELIM_CACHE[d]
    k = rng.randint(1, 7)
    parts = []
    for _ in range(k):
        r = rng.random()
        if r < 0.45:
            parts.append(rng.choice(atoms))
        elif r < 0.7:
            parts.append(rng.choice(WORDS))
        elif r < 0.8:
            parts.append(rng.choice(NUMS))
        else:
            parts.append(rng.choice(OPS))
        parts.append(rng.choice(SEPS))
    return "".join(parts)


IDENTS = ["a", "b", "c1", "tbl", "t", "db", "cat", "x", "\"Q q\"", "é", "col_1"]
TEMPLATES = [
    "select {i}, {i}.{i} from {i}.{i} as {i} where {i} > 1",
    "select {i}{s}, {i}{s}from {i}{s}join {i} on {i}.{i} = {i}.{i}",
    "select * from {i}.{i}.{i} {i}",
    "with {i} as (select {i} from {i}) select {i}.* from {i}",
    "insert into {i} ({i}, {i}) values (1, 'x')",
    "select f({i}, {i}.{i}){s}from{s}{i}",
    "select {i} from {i} where {i} in (1, 2{s}) and",
    "select {i} from{s}{i} where ({i} = 1",
    "select {i} {i} {i} from {i}",
    "select {i} from {i} group{s}by {i} order by {i} limit",
    "select case when {i} then {i} end from {i}{s})",
    "create table {i} ({i} int, {i} text{s}",
    "select {i} from {i}-1.{i}.{i}",
    "select {i},{s}from {i}",
    "update {i} set {i} = 1 where {i}.{i} is not null",
    "select {i} from {i} /* c\n */ where -- x\n {i} = 'a\nb' and {i} = ",
    "select 'a\rb', {i} from {i} where )",
    "select cast({i} as int), {i}::text from {i} as",
    # star projections with every modifier, qualified stars, multi-line
    "select * from {i}",
    "select {i}.* from {i}",
    "select *{s}except ({i}, {i}) from {i}",
    "select {i},{s}* exclude ({i}){s}from {i}",
    "select * replace ({i} + 1 as {i}) from {i}",
    "select {i}.*{s}rename ({i} as {i}){s}from {i}",
    "select * ilike '%id%' from {i}",
    "select *{s}exclude ({i}){s}replace ({i} as {i}){s}rename ({i} as {i}) from {i}",
    "select {i}.{i}.* except ({i}),{s}count(*), 1, 'x' from {i}.{i}",
    "select{s}*{s}except{s}({i}{s}){s}, {i}.* replace ({i} as {i}) from {i} where {i} = 1.5",
    "from {i} select * exclude ({i})",
]


def gen_statement(rng) -> str:
    t = rng.choice(TEMPLATES)
    out = []
    for piece in re.split(r"(\{i\}|\{s\})", t):
        if piece == "{i}":
            out.append(rng.choice(IDENTS))
        elif piece == "{s}":
            out.append(rng.choice([" ", "\n", "\r\n", "\n  ", "\t", " \r"]))
        else:
            out.append(piece)
    s = "".join(out)
    if rng.random() < 0.3:
        # token-level mutation: drop or duplicate a word
        ws = s.split(" ")
        j = rng.randrange(len(ws))
        if rng.random() < 0.5:
            del ws[j]
        else:
            ws.insert(j, ws[j])
        s = " ".join(ws)
    return s


# =========================================================================================== translate
def flag_probe() -> dict:
    """behavioural flags of the live tokenizer (not of any particular patch shape)"""
    dl, T = tok_class(None)
    t1 = dl.tokenize("'a\rb' x")
    lone_cr_fixed = (t1[0].line, t1[0].col, t1[1].line, t1[1].col) == (2, 2, 2, 4)
    t2 = dl.tokenize("GROUP\nBY x")
    kw_fixed = (t2[0].line, t2[0].col, t2[1].line, t2[1].col) == (2, 2, 2, 4)
    dm, _ = tok_class("mysql")
    t3 = dm.tokenize("'\\\n' x")
    esc_fixed = (t3[0].line, t3[0].col, t3[1].line, t3[1].col) == (2, 1, 2, 3)
    return {"fixLoneCR": lone_cr_fixed, "fixKwJump": kw_fixed, "fixEscJump": esc_fixed}


def delim_tables(T) -> dict:
    TT = sg()[4]
    return {
        "quotes": sorted(T._QUOTES.items()),
        "formats": sorted((k, v[0], v[1].name) for k, v in T._FORMAT_STRINGS.items()),
        "identifiers": sorted(T._IDENTIFIERS.items()),
        "comments": sorted((k, v) for k, v in T._COMMENTS.items()),
    }


def cfg_of(d) -> dict:
    """the full TokenizerCore configuration of a dialect as plain JSON (protocol + Generated for base)"""
    dl, T = tok_class(d)
    core = T(dialect=dl)._core
    trie_keys = []

    def walk(tr, p):
        for k, v in tr.items():
            if k == 0:
                trie_keys.append(p)
            else:
                walk(v, p + k)

    walk(core.keyword_trie, "")
    return {
        "single": sorted((k, v.name) for k, v in core.single_tokens.items()),
        "keywords": sorted((k, v.name) for k, v in core.keywords.items()),
        "trie": sorted(trie_keys),
        "quotes": sorted(core.quotes.items()),
        "formats": sorted((k, v[0], v[1].name) for k, v in core.format_strings.items()),
        "identifiers": sorted(core.identifiers.items()),
        "comments": sorted((k, v if v is not None else "") for k, v in core.comments.items()),
        "lineComments": sorted(k for k, v in core.comments.items() if v is None),
        "stringEscapes": sorted(core.string_escapes),
        "byteEscapes": sorted(core.byte_string_escapes),
        "identEscapes": sorted(core.identifier_escapes),
        "followChars": sorted(core.escape_follow_chars),
        "unescaped": sorted(core.unescaped_sequences.items()),
        "commands": sorted(x.name for x in core.commands),
        "commandPrefix": sorted(x.name for x in core.command_prefix_tokens),
        "nested": bool(core.nested_comments),
        "hintStart": core.hint_start,
        "precedingHint": sorted(x.name for x in core.tokens_preceding_hint),
        "hasBit": bool(core.has_bit_strings),
        "hasHex": bool(core.has_hex_strings),
        "numericLiterals": sorted(core.numeric_literals.items()),
        "varSingle": sorted(core.var_single_tokens),
        "rawEsc": bool(core.string_escapes_allowed_in_raw_strings),
        "underscore": bool(core.numbers_can_be_underscore_separated),
        "decimals": bool(core.numbers_can_have_decimals),
        "identDigit": bool(core.identifiers_can_start_with_digit),
    }


def position_meta_keys() -> list:
    from sqlglot.expressions import core

    return list(core.POSITION_META_KEYS)


def raise_error_shape(chk: Check) -> list:
    """the parts of Parser.raise_error the model mirrors, as source text (ast.unparse): the token fallback chain, the
    arguments of highlight_sql and the position arguments of ParseError.new"""
    import ast

    src = open(os.path.join(REPO, "sqlglot", "parser.py"), encoding="utf-8").read()
    out = []
    try:
        tree = ast.parse(src)
        fn = next(n for c in tree.body if isinstance(c, ast.ClassDef) and c.name == "Parser"
                  for n in c.body if isinstance(n, ast.FunctionDef) and n.name == "raise_error")
        for node in ast.walk(fn):
            if isinstance(node, ast.Assign) and isinstance(node.value, ast.BoolOp) and any(
                    isinstance(tg, ast.Name) and tg.id == "token" for tg in node.targets):
                out.append("token = " + ast.unparse(node.value))
            if isinstance(node, ast.Call):
                f = ast.unparse(node.func)
                if f == "highlight_sql":
                    out += sorted(f"highlight_sql:{k.arg}={ast.unparse(k.value)}" for k in node.keywords)
                if f == "ParseError.new":
                    out += sorted(f"ParseError.new:{k.arg}={ast.unparse(k.value)}" for k in node.keywords
                                  if k.arg in ("line", "col", "start_context", "highlight", "end_context"))
        for cls in [c for c in tree.body if isinstance(c, ast.ClassDef) and c.name == "Parser"]:
            for n in cls.body:
                if isinstance(n, ast.FunctionDef) and n.name == "expression":
                    for st in n.body:
                        if isinstance(st, ast.If) and ast.unparse(st.test) == "token":
                            out.append("expression: if token: " + "; ".join(ast.unparse(b) for b in st.body))
    except Exception as e:  # noqa
        chk.broken.append({"kind": "translator", "what": f"C13 translator: structure changed: Parser.raise_error not recognised ({e!r})"})
    return out


def lpairs(ps) -> str:
    return "[" + ", ".join("(" + ", ".join(lean_str(x) for x in p) + ")" for p in ps) + "]"


def lstrs(xs) -> str:
    return "[" + ", ".join(lean_str(x) for x in xs) + "]"


def translate(chk: Check) -> str:
    flags = flag_probe()
    chk.cov["flags"] = flags
    out = ["-- GENERATED by vf/props/c13.py from the live tokenizer classes of every dialect. Do not edit.",
           "import SqlglotModel.Model.Lex",
           "namespace SqlglotModel.Generated.C13",
           "open SqlglotModel.Lex",
           f"def fixLoneCR : Bool := {lean_bool(flags['fixLoneCR'])}",
           f"def fixKwJump : Bool := {lean_bool(flags['fixKwJump'])}",
           f"def fixEscJump : Bool := {lean_bool(flags['fixEscJump'])}",
           "/-- per dialect: every lexeme the tokenizer jumps over with one `_advance(n)` (string/identifier/comment delimiters,",
           "    string prefixes, escape characters) -/",
           "def dialectDelims : List (String × List String) := ["]
    rows = []
    n_delims = 0
    for d in all_dialects():
        dl, T = tok_class(d)
        ds = set()
        for s, e in T._QUOTES.items():
            ds |= {s, e}
        for s, (e, _) in T._FORMAT_STRINGS.items():
            ds |= {s, e}
        for s, e in T._IDENTIFIERS.items():
            ds |= {s, e}
        for s, e in T._COMMENTS.items():
            ds |= {s} | ({e} if e else set())
        ds |= set(T._STRING_ESCAPES) | set(T._BYTE_STRING_ESCAPES) | set(T._IDENTIFIER_ESCAPES)
        ds.discard("")
        n_delims += len(ds)
        rows.append(f"  ({lean_str(d or 'base')}, {lstrs(sorted(ds))})")
    out.append(",\n".join(rows))
    out.append("]")
    c = cfg_of(None)
    out += [
        "/-- the base dialect's TokenizerCore configuration (keywords restricted to the keyword-trie keys: symbols and multi-word keywords) -/",
        "def baseCfg : Cfg := {",
        f"  single := {lpairs(c['single'])},",
        f"  keywords := {lpairs([kv for kv in c['keywords'] if kv[0] in set(c['trie'])])},",
        f"  trie := {lstrs(c['trie'])},",
        f"  quotes := {lpairs(c['quotes'])},",
        "  formats := [" + ", ".join(f"({lean_str(a)}, {lean_str(b)}, {lean_str(t)})" for a, b, t in c["formats"]) + "],",
        f"  identifiers := {lpairs(c['identifiers'])},",
        f"  comments := {lpairs([(k, v) for k, v in c['comments'] if k not in c['lineComments']])},",
        f"  lineComments := {lstrs(c['lineComments'])},",
        f"  stringEscapes := {lstrs(c['stringEscapes'])},",
        f"  byteEscapes := {lstrs(c['byteEscapes'])},",
        f"  identEscapes := {lstrs(c['identEscapes'])},",
        f"  followChars := {lstrs(c['followChars'])},",
        f"  unescaped := {lpairs(c['unescaped'])},",
        f"  commands := {lstrs(c['commands'])},",
        f"  commandPrefix := {lstrs(c['commandPrefix'])},",
        f"  nested := {lean_bool(c['nested'])},",
        f"  hintStart := {lean_str(c['hintStart'])},",
        f"  precedingHint := {lstrs(c['precedingHint'])},",
        f"  hasBit := {lean_bool(c['hasBit'])},",
        f"  hasHex := {lean_bool(c['hasHex'])},",
        f"  numericLiterals := {lpairs(c['numericLiterals'])},",
        f"  varSingle := {lstrs(c['varSingle'])},",
        f"  rawEsc := {lean_bool(c['rawEsc'])},",
        f"  underscore := {lean_bool(c['underscore'])},",
        f"  decimals := {lean_bool(c['decimals'])},",
        f"  identDigit := {lean_bool(c['identDigit'])},",
        "  fixLoneCR := fixLoneCR,",
        "  fixKwJump := fixKwJump,",
        "  fixEscJump := fixEscJump }",
        "/-- structural facts read with `ast` from Parser.raise_error and expressions/core.py -/",
        f"def positionMetaKeys : List String := {lstrs(position_meta_keys())}",
        f"def raiseErrorShape : List String := {lstrs(raise_error_shape(chk))}",
        f"def mergeLineOfLast : Bool := {lean_bool(merge_line_probe())}",
        f"def updatePositionsKeywordBranch : List String := {lstrs(update_positions_keyword_branch(chk))}",
        "def positionMergeSites : List (String × List String) := ["
        + ", ".join(f"({lean_str(a)}, {lstrs(b)})" for a, b in position_merge_sites(chk)) + "]",
        "/-- every delegate call to .parse / .parse_into / ._parse made from a function that holds the statement text `sql`:",
        "    (site, callee, hands `sql` on) -/",
        "def parserDelegates : List (String × String × Bool) := ["
        + ", ".join(f"({lean_str(a)}, {lean_str(b)}, {lean_bool(c)})" for a, b, c in delegate_table(chk)) + "]",
        "end SqlglotModel.Generated.C13",
        "",
    ]
    chk.cov["dialects"] = len(rows)
    chk.cov["delimiters_total"] = n_delims
    return "\n".join(out)


# =========================================================================================== correspondence
def ch_bits(ch: str):
    return (1 if ch.isspace() else 0) | (2 if ch.isalnum() else 0) | (4 if ch.isidentifier() else 0)


def enc_sql(sql: str):
    """each code point with the CPython class bits the tokenizer consults and its str.upper()"""
    out = []
    for ch in sql:
        u = ch.upper()
        out.append([ord(ch), ch_bits(ch)] if u == ch else [ord(ch), ch_bits(ch), [ord(x) for x in u]])
    return out


def real_lex(sql: str, d):
    TokenError = sg()[5]
    dl, T = tok_class(d)
    try:
        toks = dl.tokenize(sql)
    except TokenError as e:
        return "error %s %s" % (e.start, e.end)
    return "ok " + json.dumps([[t.token_type.name, t.text, t.line, t.col, t.start, t.end] for t in toks
                                if not (t.token_type.name == "HIVE_TOKEN_STREAM" and t.text == "")],
                               ensure_ascii=False, separators=(",", ":"))


def real_raise_error(sql, tk, cu, pv, ctx):
    """call the real Parser.raise_error with chosen token / _curr / _prev and read back what it records"""
    _, _, _, _, TT, _, ParseError, ErrorLevel, _ = sg()
    from sqlglot.parser import Parser, SENTINEL_NONE
    from sqlglot.tokens import Token

    def mk(t):
        return SENTINEL_NONE if t is None else Token(TT.VAR, "x", t[0], t[1], t[2], t[3])

    p = Parser(error_level=ErrorLevel.IMMEDIATE, error_message_context=ctx)
    p.sql = sql
    p._curr, p._prev = mk(cu), mk(pv)
    try:
        p.raise_error("msg", mk(tk)) if tk is not None else p.raise_error("msg")
    except ParseError as e:
        d = e.errors[0]
        head = f"msg. Line {d['line']}, Col: {d['col']}.\n  "
        msg = str(e)
        formatted = msg[len(head):] if msg.startswith(head) else "<<message prefix differs>>" + msg
        return [d["line"], d["col"], d["start_context"], d["highlight"], d["end_context"], formatted, d["description"]]
    return ["no error raised"]


POS_KEYS = ("line", "col", "start", "end")


def real_update_positions(init, src):
    _, exp, _, _, TT, *_ = sg()
    from sqlglot.tokens import Token

    def fill(node, vals, extra=False):
        if any(v != "A" for v in vals) or extra:
            for k, v in zip(POS_KEYS, vals):
                if v != "A":
                    node.meta[k] = v
            if extra:
                node.meta["name"] = "n"

    node = exp.Identifier(this="x")
    fill(node, init)
    if src["kind"] == "token":
        t = src["t"]
        node.update_positions(Token(TT.VAR, "x", t[0], t[1], t[2], t[3]))
    elif src["kind"] == "expr":
        other = exp.Identifier(this="y")
        fill(other, src["other"], src.get("extra", False))
        node.update_positions(other)
    else:
        v = src["v"]
        node.update_positions(line=v[0], col=v[1], start=v[2], end=v[3])
    m = node._meta or {}
    return [m[k] if k in m else "A" for k in POS_KEYS]


INFO_VIEWS = ["TABLES", "COLUMNS", "`TABLES`", "SCHEMATA", "views"]


def gen_info_schema(rng) -> str:
    seps = ["", "", " ", "\n", "\r\n", "\n  ", "\t"]
    qual = rng.choice(["", "ds.", "proj.ds.", "`region-us`.", "`p`.`d`."])
    isn = rng.choice(["INFORMATION_SCHEMA", "information_schema", "`INFORMATION_SCHEMA`"])
    core = qual + isn + rng.choice(seps) + "." + rng.choice(seps) + rng.choice(INFO_VIEWS)
    if rng.random() < 0.25:
        return core + rng.choice(["", " t", " as v"])  # a bare table reference (into=Table): the merged span starts at offset 0
    lead = rng.choice(["select * from ", "select a,\n b from\n ", "select 1 from t join "])
    tail = rng.choice(["", " t", " as v where a = 1", "\nwhere x > 0"])
    return lead + core + tail


def real_merge(sql: str):
    """(meta of the INFORMATION_SCHEMA token, meta of the view-name token, meta recorded on the merged identifier)"""
    sqlglot, exp, _, _, TT, TokenError, ParseError, *_ = sg()
    dl, _ = tok_class("bigquery")
    try:
        toks = dl.tokenize(sql)
        tree = dl.parser().parse(list(toks), sql)[0]
    except Exception:
        return None
    idx = [i for i, t in enumerate(toks) if t.text.upper() == "INFORMATION_SCHEMA"]
    if len(idx) != 1 or idx[0] + 2 >= len(toks) or toks[idx[0] + 1].token_type != TT.DOT:
        return None
    a, b = toks[idx[0]], toks[idx[0] + 2]
    merged = [n for n in tree.find_all(exp.Identifier) if n.name.upper() == "INFORMATION_SCHEMA." + b.text.upper()]
    if len(merged) != 1:
        return None
    m = merged[0]._meta or {}
    return ([a.line, a.col, a.start, a.end], [b.line, b.col, b.start, b.end], [m[k] if k in m else "A" for k in POS_KEYS])


def supported_chars(sql: str) -> bool:
    return not any(0xD800 <= ord(c) <= 0xDFFF for c in sql)


def correspond(chk: Check) -> list:
    rng = chk.rng
    highlight_sql = sg()[8]
    dialects = all_dialects()
    n_soup = chk.pick(2500, 60000)
    n_dialect = chk.pick(2500, 60000)
    cases = []  # (dialect, sql)
    corpus = [(None, "'a\rb' x"), (None, "GROUP\nBY x"), (None, "a\r\nb\rc\nd"), (None, "select 'a''b', \"q\" -- c\r\n , 1.5e3 /* x\n */ y"),
              (None, "/*"), (None, "'abc"), (None, "a /*+ h */ b"), (None, "select /*+ h\n */ b"), (None, "  \t "), (None, ""),
              (None, "12ab 1e+ 1..2 0x1F"), ("mysql", "'a\\\nb' `q\rx` # c\n x"), ("bigquery", "r'''a\nb''' '''c''' b\"x\""),
              ("snowflake", "$$a\nb$$ // c\n x"), ("clickhouse", "1_000 0x1F 0b101 x"), ("hive", "1L 2.5BD x")]
    cases += corpus
    for _ in range(n_soup):
        cases.append((None if rng.random() < 0.5 else rng.choice(dialects), gen_soup(rng)))
    for _ in range(n_dialect):
        d = rng.choice(dialects)
        cases.append((d, gen_dialect_soup(rng, d)))
    for _ in range(chk.pick(400, 5000)):
        cases.append((rng.choice(dialects), gen_statement(rng)))
    # group by dialect so the configuration is shipped once
    by_d: dict = {}
    for d, s in cases:
        if d == "athena":
            continue  # Athena's tokenizer is a dispatcher over the hive / trino tokenizers, not one TokenizerCore configuration
        if supported_chars(s):
            by_d.setdefault(d, []).append(s)
    lines, expect, meta = [], [], []
    for d in sorted(by_d, key=lambda x: x or ""):
        lines.append(json.dumps({"op": "cfg", "cfg": cfg_of(d)}, ensure_ascii=True))
        expect.append("ok clean")  # the hypothesis cleanCfg of lex_never_skews, evaluated by the Lean definition on this dialect
        meta.append(("cfg", d, None))
        for s in by_d[d]:
            lines.append(json.dumps({"op": "lex", "sql": enc_sql(s)}))
            expect.append(real_lex(s, d))
            meta.append(("lex", d, s))
    # highlight_sql and the reference line/col
    for _ in range(chk.pick(600, 8000)):
        s = gen_soup(rng, 0.0) if rng.random() < 0.8 else ""
        n = len(s)
        k = rng.choice([1, 1, 1, 2, 3])
        pos = []
        for _ in range(k):
            a = rng.randint(0, max(n, 1) + 1)
            b = a + rng.choice([0, 0, 1, 2, 5, -1, -3])
            pos.append([a, max(b, 0)])
        ctx = rng.choice([0, 1, 3, 10, 100])
        lines.append(json.dumps({"op": "highlight", "sql": [ord(c) for c in s], "pos": pos, "ctx": ctx}))
        f, sc, hl, ec = highlight_sql(s, [tuple(p) for p in pos], ctx)
        expect.append(json.dumps([f, sc, hl, ec], ensure_ascii=False, separators=(",", ":")))
        meta.append(("highlight", None, (s, pos, ctx)))
    for _ in range(chk.pick(300, 3000)):
        s = gen_soup(rng, 0.0)
        ln, co = ref_positions(s)
        lines.append(json.dumps({"op": "linecol", "sql": [ord(c) for c in s]}))
        expect.append(json.dumps([[a, b] for a, b in zip(ln, co)], separators=(",", ":")))
        meta.append(("linecol", None, s))
    # Parser.raise_error: token fallback chain, line/col, highlight_sql window with error_message_context
    for _ in range(chk.pick(500, 6000)):
        sq = gen_soup(rng, 0.0) if rng.random() < 0.9 else ""
        n = len(sq)

        def rtok():
            if rng.random() < 0.35:
                return None
            a = rng.randint(0, n + 1)
            b = a + rng.choice([0, 0, 1, 2, 5, 9]) if rng.random() < 0.9 else max(a - rng.randint(1, 3), 0)
            return [rng.randint(1, 9), rng.randint(0, 40), a, b]

        tk, cu, pv = rtok(), rtok(), rtok()
        ctx = rng.choice([0, 1, 3, 10, 100])
        lines.append(json.dumps({"op": "raise", "sql": [ord(c) for c in sq], "token": tk, "curr": cu, "prev": pv, "ctx": ctx}))
        expect.append(json.dumps(real_raise_error(sq, tk, cu, pv, ctx), ensure_ascii=False, separators=(",", ":")))
        meta.append(("raise", None, (sq, tk, cu, pv, ctx)))
    # Expression.update_positions on the four position keys
    for _ in range(chk.pick(500, 6000)):
        def rmeta(p_empty=0.3):
            if rng.random() < p_empty:
                return ["A", "A", "A", "A"]
            return [rng.choice(["A", None, rng.randint(0, 50)]) if rng.random() < 0.4 else rng.randint(0, 50) for _ in range(4)]

        init = rmeta()
        kind = rng.choice(["token", "expr", "expr", "explicit"])
        if kind == "token":
            src = {"kind": "token", "t": [rng.randint(1, 9), rng.randint(0, 40), rng.randint(0, 50), rng.randint(0, 60)]}
        elif kind == "expr":
            src = {"kind": "expr", "other": rmeta(0.25), "extra": rng.random() < 0.3}
        else:
            src = {"kind": "explicit", "v": [rng.choice([None, rng.randint(0, 50)]) for _ in range(4)]}
        lines.append(json.dumps({"op": "meta", "init": init, "src": src}))
        expect.append(json.dumps(real_update_positions(init, src), separators=(",", ":")))
        meta.append(("meta", None, (init, src)))
    # the INFORMATION_SCHEMA merge site of the BigQuery parser, on real parses
    for _ in range(chk.pick(150, 1500)):
        sq = gen_info_schema(rng)
        r = real_merge(sq)
        if r is None:
            continue
        first, last, got_meta = r
        lines.append(json.dumps({"op": "merge", "first": first, "last": last}))
        expect.append(json.dumps(got_meta, separators=(",", ":")))
        meta.append(("merge", "bigquery", sq))
    got = chk.driver("C13", lines)
    hints = []
    unsupported = 0
    for g, e, (op, d, s) in zip(got, expect, meta):
        if op == "lex":
            chk.corr_cases += 1
            if g.startswith("unsupported"):
                unsupported += 1
                chk.count("model:" + g[:60])
                continue
            skew = False
            if g.startswith("ok! "):  # the model flags a run in which the code's own bookkeeping skipped a line break
                skew = True
                g = "ok " + g[4:]
            chk.count("lex:" + ("skew" if skew else e.split(" ")[0]))
            chk.case(("lex", d, s), nontrivial=len(s) > 3, sample={"dialect": d, "sql": s, "impl": e[:200]} if chk.corr_cases % 1499 == 0 else None)
            gj = canon(g)
            if gj != canon(e):
                chk.correspondence_broken("tokenize", {"dialect": d, "sql": s, "model": g[:400], "impl": e[:400]})
                hints.append((d, s))
            elif not skew and e.startswith("ok "):
                # proved: no skew => line/col agree.  Cross-check the statement on the implementation's answer.
                v = token_violation(s, d)
                if v is not None and v[0] == "linecol" and v[1] != "command-string":
                    chk.correspondence_broken("model reports no skew but the tokens' line/col disagree with the offsets",
                                              {"dialect": d, "sql": s, "what": v[3]})
                    hints.append((d, s))
        else:
            chk.corr_cases += 1
            chk.count("op:" + op)
            if op == "cfg" and g == "ok unclean":
                chk.broken.append({"kind": "translator", "what": f"C13: the tokenizer configuration of dialect {d or 'base'} fails the hygiene test "
                                   "cleanCfg (a position repair was reverted, or a delimiter contains CR/LF/blank): lex_never_skews no longer applies"})
                chk.note(f"cleanCfg fails for dialect {d or 'base'}")
                continue
            try:
                same = (g == e) if op == "cfg" else json.loads(g) == json.loads(e)
            except Exception:
                same = False
            if not same:
                chk.correspondence_broken(op, {"input": s, "model": g[:300], "impl": e[:300]})
    chk.cov["model_unsupported_share"] = round(unsupported / max(1, sum(1 for m in meta if m[0] == "lex")), 3)
    return hints


def canon(s: str):
    if s.startswith("ok "):
        try:
            return ("ok", json.loads(s[3:]))
        except Exception:
            return ("bad", s)
    return ("other", s)


# =========================================================================================== search
WITNESSES = [
    (None, "'a\rb' x"), (None, "\"a\rb\" x"), (None, "GROUP\nBY x"), (None, "order\r\nby a"), (None, "show tables foo"),
    (None, "show b "), ("postgres", "$a\nb c"), ("duckdb", "$\n"), ("bigquery", "select a from proj-1.db.tbl"),
    ("bigquery", "SELECT * EXCEPT (a, b) FROM t"), ("snowflake", "SELECT * ILIKE '%id%' FROM t"),
    ("snowflake", "select a,\n  t.* rename (a as b)\nfrom t"), ("duckdb", "select * exclude (a) replace (b as c) from t"),
    ("duckdb", "from t"), ("clickhouse", "$a\nb$$a\nb$ x"),
    ("bigquery", "select * from region.INFORMATION_SCHEMA.TABLES"), ("bigquery", "select * from INFORMATION_SCHEMA\n  .TABLES t"),
    ("bigquery", "select * from `p`.ds.INFORMATION_SCHEMA.\nCOLUMNS where a = 1"), ("bigquery", "INFORMATION_SCHEMA.TABLES"),
    ("bigquery", "INFORMATION_SCHEMA.COLUMNS t"),
]


def search(chk: Check, hints: list, budget_s: float) -> None:
    rng = chk.rng
    t0 = time.time()
    dialects = all_dialects()
    n = {"tokens": 0, "parse": 0, "entry": 0, "violating": 0, "token_errors": 0, "marker_tokens": 0}
    overrides = override_names()

    def consider(d, sql, parse=False, entry=False):
        if not supported_chars(sql):
            return
        n["tokens"] += 1
        try:
            v = token_violation(sql, d)
        except Exception as e:  # the oracle itself must not die on odd input
            raise HarnessError(f"C13 oracle crashed on {sql!r} ({d}): {e!r}")
        if v is not None:
            n["violating"] += 1
            report(chk, sql, d, v, "tokens")
            return
        if parse:
            n["parse"] += 1
            v = parse_violation(sql, d)
            if v is not None:
                n["violating"] += 1
                report(chk, sql, d, v, "parse")
                return
            # every public entry point: always for dialects that override parse / parse_into / tokenize, a share of the others
            if d in overrides or entry or zlib.crc32(sql.encode("utf-8", "replace")) % 8 == 0:
                n["entry"] += 1
                v = entry_violation(sql, d)
                if v is not None:
                    n["violating"] += 1
                    report(chk, sql, d, v, "entry")

    for d in overrides + [None]:
        for s in ERROR_INPUTS:
            if len(chk.violations) >= 3:
                break
            consider(d, s, parse=True, entry=True)
    for d, s in WITNESSES + list(hints)[:60]:
        if len(chk.violations) >= 3:
            break
        consider(d, s, parse=True, entry=True)
    i = 0
    while time.time() - t0 < budget_s and len(chk.violations) < 3:
        i += 1
        d = rng.choice(overrides) if overrides and i % 6 == 5 else rng.choice(dialects)
        r = i % 4
        if r == 0:
            s = gen_soup(rng)
        elif r == 1:
            s = gen_dialect_soup(rng, d)
        else:
            s = gen_statement(rng)
        info = i % 40 == 7
        if info:
            d, s, r = "bigquery", gen_info_schema(rng), 2
        consider(d, s, parse=(r >= 2) or rng.random() < 0.3, entry=info)
        chk.case(("search", d, s), nontrivial=True)
        chk.count("search:" + ("soup", "dialect-soup", "statement", "statement")[r])
    chk.search_info = {"ran": True, "budget_s": budget_s, **n,
                       "oracle": "tokens ordered / non-overlapping / inside the input, gaps are whitespace or comments, line/col agree with "
                                 "the end offset, token text is its span (non-normalised kinds), TokenError window, ParseError "
                                 "line/col/highlight select a lexeme (at every public entry point: parse, parse_one with and without into=, "
                                 "Dialect.parse / parse_into, maybe_parse(into=), transpile), every node with position meta coincides with a "
                                 "token and carries its own lexeme", "override_dialects": {k: v for k, v in override_dialects().items() if k != "__done__"}}


# =========================================================================================== entry points
def validate_char_hypotheses(chk: Check) -> None:
    """Hypothesis WF of the whole-run theorems, checked over every Unicode scalar value:
    blanks, CR and LF are str.isspace(); no str.isalnum() character is CR or LF."""
    bad = 0
    for cp in range(0, 0x110000):
        if 0xD800 <= cp <= 0xDFFF:
            continue
        c = chr(cp)
        if c in " \t\r\n" and not c.isspace():
            bad += 1
        if c.isalnum() and c in "\r\n":
            bad += 1
    chk.cov["char_hypotheses"] = {"checked": "WF: blank/CR/LF are whitespace; alphanumerics are never CR/LF (all code points)",
                                  "violations": bad}
    if bad:
        raise HarnessError("CPython character classes contradict the model's hypothesis WF")


def run(chk: Check) -> None:
    import logging

    logging.getLogger("sqlglot").setLevel(logging.CRITICAL)
    chk.trusted.append("C13: hand-written model Model/Lex.lean of TokenizerCore (_scan, _advance, _add, _scan_keywords, _scan_number, "
                       "_scan_var, _scan_identifier, _scan_string, _scan_comment, _extract_string incl. the str.find fast path) and of "
                       "errors.highlight_sql; CPython str.isspace/isalnum/isidentifier/upper are shipped per character on the protocol")
    chk.assumptions += [
        "model: heredoc strings, numeric-literal suffixes (1L), command tokens (SHOW/FETCH/... swallowing the rest of the statement) and "
        "int(text, base) on non-ASCII hex/bit bodies make the model answer 'unsupported'; those inputs are covered by the search oracle "
        "on the real code only",
        "Parser.raise_error / Expression.update_positions are modelled on the position fields only (message text, non-position meta keys "
        "and which token each _parse_* method passes are not modelled)",
        "comment attachment to tokens (Token.comments) is not modelled; comment spans are a ghost field of the model",
        "whole-run theorems assume WF (blank/CR/LF are isspace, alphanumerics are never CR/LF) for the shipped class bits; validated over all code points each run",
        "lex_line_col_exact needs cleanCfg (three repair flags probed behaviourally from the live code + delimiter hygiene); the Lean driver evaluates cleanCfg on every dialect's shipped configuration each run",
        "which token each _parse_* method hands to raise_error is not modelled (oracle only: the reported line/col/highlight must select a lexeme)",
        "line break = LF, or CR not followed by LF (the tokenizer's own convention); the LF of a CRLF pair is given the column of the CR by _advance — "
        "no token can end there except a command-argument STRING",
    ]
    chk.write_generated(translate(chk))
    proved = chk.prove(MODULES, "Properties.C13", THEOREMS)
    validate_char_hypotheses(chk)
    hints = []
    try:
        hints = correspond(chk)
        hints = check_sql_premise(chk) + hints
    except HarnessError as e:
        if proved:
            raise
        chk.note(f"model driver unavailable ({e}); continuing with the search on the real code")
    budget = chk.pick(20, 240)
    if chk.broken:
        budget *= 2
    search(chk, hints, budget)


def replay(path: str) -> int:
    import sys

    sys.path.insert(0, REPO)
    rec = json.load(open(path))
    r = rec.get("replay")
    if not r:
        print(json.dumps(rec, indent=1)[:3000])
        return 1
    fn = {"tokens": token_violation, "parse": parse_violation, "entry": entry_violation}.get(r.get("oracle"), parse_violation)
    v = fn(r["sql"], r["dialect"])
    print("replay:", ("VIOLATES: " + v[3]) if v else "holds", "| input:", repr(r["sql"]), "dialect:", r["dialect"])
    return 1 if v else 0
