import sys
from vf.core import main_entry

if __name__ == "__main__":
    sys.exit(main_entry(sys.argv[1:]))
