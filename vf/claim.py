"""python3 -m vf.claim Cxx <file.json>   — add/replace a claim {technique,text,note[,ref]} and regenerate MANIFEST.json + root import"""
import json, os, sys
ROOT = os.path.dirname(os.path.dirname(os.path.abspath(__file__)))
pid = sys.argv[1].upper()
new = json.load(open(sys.argv[2]))
new.setdefault("ref", f"DESIGN.md §4 {pid}")
p = os.path.join(ROOT, "vf", "claims.json")
d = json.load(open(p))
d[pid] = new
json.dump(d, open(p, "w"), indent=1, sort_keys=True)
root = os.path.join(ROOT, "lean", "SqlglotModel.lean")
lines = ["-- Root of the `SqlglotModel` library: every property file (and through them every model and proof file)."]
lines += [f"import SqlglotModel.Properties.{k}" for k in sorted(d)]
# property files beyond one-per-property (kept in the root so a plain `lake build` checks them too)
lines += [f"import SqlglotModel.Properties.{os.path.basename(f)[:-5]}"
          for f in sorted(__import__("glob").glob(os.path.join(ROOT, "lean", "SqlglotModel", "Properties", "*.lean")))
          if os.path.basename(f)[:-5] not in d]
open(root, "w").write("\n".join(lines) + "\n")
from vf import gen_manifest
gen_manifest.CLAIMED = {k: (v["technique"], v["text"], v["note"], v["ref"]) for k, v in d.items()}
gen_manifest.main()
print("claimed:", sorted(d))
