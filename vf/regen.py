"""python3 -m vf.regen  — rewrite every lean/SqlglotModel/Generated/Cxx.lean from /repo's current tree (no proofs, no evidence)."""
import json, os, subprocess, sys
from concurrent.futures import ThreadPoolExecutor
ROOT = os.path.dirname(os.path.dirname(os.path.abspath(__file__)))
pids = sorted(json.load(open(os.path.join(ROOT, "vf", "claims.json"))))
env = dict(os.environ, VERIF_TRANSLATE_ONLY="1", VERIF_REPO="/repo")
def one(pid):
    p = subprocess.run(["./check", pid], cwd=ROOT, env=env, capture_output=True, text=True)
    return pid, p.returncode, (p.stdout + p.stderr).strip().splitlines()[-1:] 
with ThreadPoolExecutor(8) as ex:
    bad = 0
    for pid, rc, tail in ex.map(one, pids):
        if rc != 0:
            bad += 1
            print(pid, "FAILED", tail)
print("regenerated", len(pids) - bad, "of", len(pids))
sys.exit(1 if bad else 0)
