#!/bin/sh
# run every claimed check at the thorough tier, 4 at a time; summary lines to stdout
cd "$(dirname "$0")/.." || exit 2
SEED=${1:-0}
ls vf/props/c[0-9][0-9].py | sed 's/.*c\([0-9][0-9]\).py/C\1/' | xargs -P 4 -I{} sh -c 'VERIF_SEED='"$SEED"' ./check {} --tier thorough > /tmp/thorough_{}.log 2>&1; echo "{} exit=$? $(tail -1 /tmp/thorough_{}.log | cut -c1-200)"; grep "^VIOLATION" /tmp/thorough_{}.log | head -3'
