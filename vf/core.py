"""Shared machinery for the per-property checks (see DESIGN.md section 2).

A check is a pipeline:  translate -> prove (lake build + axiom audit) -> correspond -> search -> report.
Nothing here imports sqlglot; property modules do (from VERIF_REPO, default /repo).
"""

from __future__ import annotations

import hashlib
import json
import os
import random
import re
import subprocess
import sys
import time
import traceback
import typing as t

ROOT = os.path.dirname(os.path.dirname(os.path.abspath(__file__)))
LEAN_DIR = os.path.join(ROOT, "lean")
LIB = "SqlglotModel"
REPO = os.environ.get("VERIF_REPO", "/repo")
ALLOWED_AXIOMS = {"propext", "Classical.choice", "Quot.sound"}
FORBIDDEN = re.compile(
    r"\b(sorry|admit|native_decide|bv_decide|implemented_by|unsafe)\b|^\s*axiom\s|maxHeartbeats\s+0\b"
)

TRUSTED_BASE_COMMON = [
    "Lean 4.33.0 kernel (thorough tier re-checks the compiled modules with leanchecker)",
    "axioms allowed in property theorems: propext, Classical.choice, Quot.sound (audited with #print axioms on every run)",
    "the per-property translator/extractor in vf/props (reads live class attributes and ast of the anchored source)",
    "the correspondence harness: model and implementation are compared on generated inputs (sampled unless stated exhaustive)",
]


class HarnessError(Exception):
    """Something in the machinery (not in sqlglot) is broken: exit 2."""


class TranslateOnly(Exception):
    """VERIF_TRANSLATE_ONLY=1: stop after the Generated/*.lean files have been rewritten (python3 -m vf.regen)."""


def strip_lean_comments(src: str) -> str:
    out = []
    i, n, depth = 0, len(src), 0
    while i < n:
        if src.startswith("/-", i):
            depth += 1
            i += 2
        elif depth and src.startswith("-/", i):
            depth -= 1
            i += 2
        elif depth:
            if src[i] == "\n":
                out.append("\n")
            i += 1
        elif src.startswith("--", i):
            while i < n and src[i] != "\n":
                i += 1
        elif src[i] == '"':
            j = i + 1
            while j < n and src[j] != '"':
                j += 2 if src[j] == "\\" else 1
            out.append('""')
            i = j + 1
        else:
            out.append(src[i])
            i += 1
    return "".join(out)


def extract_statements(src: str) -> dict:
    """theorem name -> whitespace-normalised statement text (from `theorem name` up to the `:=` that starts the proof)."""
    out = {}
    ns: list[str] = []
    for m in re.finditer(r"^(namespace|end|theorem)\s+(\S+)?", src, re.M):
        kind, name = m.group(1), m.group(2)
        if kind == "namespace" and name:
            ns.append(name)
        elif kind == "end":
            if ns and name and name.split(".")[-1] == ns[-1].split(".")[-1]:
                ns.pop()
        elif kind == "theorem" and name:
            rest = src[m.end():]
            k = re.search(r":=\s*(by\b|\n|fun\b|⟨|[A-Za-z_(])", rest)
            body = rest[: k.start()] if k else rest[:600]
            out[name] = " ".join(body.split())
            if ns:
                out[ns[-1].split(".")[-1] + "." + name] = out[name]
    return out


def lean_str(s: str) -> str:
    """A Lean string literal for an arbitrary Python str (no lone surrogates)."""
    out = ['"']
    for ch in s:
        o = ord(ch)
        if ch == '"':
            out.append('\\"')
        elif ch == "\\":
            out.append("\\\\")
        elif ch == "\n":
            out.append("\\n")
        elif ch == "\t":
            out.append("\\t")
        elif ch == "\r":
            out.append("\\r")
        elif 32 <= o < 127:
            out.append(ch)
        else:
            out.append("\\u{%x}" % o)
    out.append('"')
    return "".join(out)


def lean_char(ch: str) -> str:
    return "Char.ofNat %d" % ord(ch)


def lean_list(items: t.Iterable[str]) -> str:
    return "[" + ", ".join(items) + "]"


def lean_bool(b: t.Any) -> str:
    return "true" if b else "false"


class Check:
    def __init__(self, pid: str, tier: str, seed: int):
        self.pid = pid
        self.tier = tier
        self.seed = seed
        self.rng = random.Random(f"{pid}:{seed}")
        self.t0 = time.time()
        self.cov: dict[str, t.Any] = {}
        self.assumptions: list[str] = []
        self.violations: list[dict] = []  # unlisted
        self.known_hits: list[tuple[dict, dict]] = []
        self.notes: list[str] = []
        self.theorems: dict[str, t.Any] = {}
        self.obligations = 0
        self.discharged = 0
        self.broken: list[dict] = []  # proof obligations / correspondence that stopped checking
        self.samples: list[t.Any] = []
        self.evaluations = 0
        self.nontrivial: set = set()
        self.dist: dict[str, int] = {}
        self.checker_cmds: list[str] = []
        self.trusted: list[str] = list(TRUSTED_BASE_COMMON)
        self._known = _load_known()
        import glob
        for old in glob.glob(os.path.join(ROOT, "replays", f"{pid}-seed{seed}-*.json")):
            os.remove(old)
        self.corr_cases = 0
        self.corr_disagreements = 0
        self.search_info: dict[str, t.Any] = {}

    # ---- time budget helpers -------------------------------------------------------------
    def elapsed(self) -> float:
        return time.time() - self.t0

    @property
    def quick(self) -> bool:
        return self.tier == "quick"

    def pick(self, quick_val, thorough_val):
        return quick_val if self.quick else thorough_val

    # ---- bookkeeping ---------------------------------------------------------------------
    def count(self, key: str, n: int = 1) -> None:
        self.dist[key] = self.dist.get(key, 0) + n

    def case(self, fingerprint: t.Any, nontrivial: bool = True, sample: t.Any = None) -> None:
        self.evaluations += 1
        if nontrivial:
            h = hashlib.blake2b(repr(fingerprint).encode("utf-8", "surrogatepass"), digest_size=8).digest()
            self.nontrivial.add(h)
        if sample is not None and len(self.samples) < 12:
            self.samples.append(sample)

    def note(self, msg: str) -> None:
        self.notes.append(msg)
        print(f"[{self.pid}] {msg}", flush=True)

    # ---- Lean side -----------------------------------------------------------------------
    def write_generated(self, text: str, name: str | None = None) -> str:
        name = name or self.pid
        path = os.path.join(LEAN_DIR, LIB, "Generated", f"{name}.lean")
        os.makedirs(os.path.dirname(path), exist_ok=True)
        old = None
        if os.path.exists(path):
            with open(path, encoding="utf-8") as f:
                old = f.read()
        if old != text:
            with open(path, "w", encoding="utf-8") as f:
                f.write(text)
            if old is not None and os.path.realpath(REPO) != "/repo":
                # a run against a scratch tree (VERIF_REPO) must not leave its tables behind in /verif
                import atexit

                def _restore(path=path, old=old):
                    with open(path, "w", encoding="utf-8") as f:
                        f.write(old)

                atexit.register(_restore)
        self.cov.setdefault("generated_tables", {})[name] = {
            "bytes": len(text.encode("utf-8")),
            "sha": hashlib.sha256(text.encode("utf-8")).hexdigest()[:16],
            "changed_vs_committed": old is not None and old != text,
        }
        return path

    @staticmethod
    def _lean_lock(exclusive: bool):
        """Checks may run in parallel (vf/thorough_all.sh runs four at a time) and share compiled modules: the thorough
        tier deletes and rebuilds its modules' .olean files, so readers (drivers, axiom audit, leanchecker) hold a shared
        lock and the delete+rebuild step holds an exclusive one."""
        import contextlib
        import fcntl

        @contextlib.contextmanager
        def cm():
            os.makedirs(os.path.join(LEAN_DIR, ".lake"), exist_ok=True)
            with open(os.path.join(LEAN_DIR, ".lake", "verif.lock"), "w") as f:
                fcntl.flock(f, fcntl.LOCK_EX if exclusive else fcntl.LOCK_SH)
                try:
                    yield
                finally:
                    fcntl.flock(f, fcntl.LOCK_UN)

        return cm()

    def lake(self, args: list[str], timeout: int = 1800, input: str | None = None, lock: str | None = "sh") -> tuple[int, str]:
        env = dict(os.environ)
        env.pop("LEAN_PATH", None)

        def run() -> "subprocess.CompletedProcess[str]":
            return subprocess.run(
                ["lake"] + args,
                cwd=LEAN_DIR,
                capture_output=True,
                text=True,
                timeout=timeout,
                input=input,
                env=env,
            )

        try:
            if lock is None:
                p = run()
            else:
                with self._lean_lock(lock == "ex"):
                    p = run()
        except subprocess.TimeoutExpired:
            raise HarnessError(f"lake {' '.join(args)} timed out after {timeout}s")
        return p.returncode, (p.stdout or "") + (p.stderr or "")

    def lean_build(self, modules: list[str]) -> tuple[bool, str]:
        """lake build the given modules (kernel checks every theorem against the regenerated tables)."""
        targets = [f"{LIB}.{m}" for m in modules]
        cmd = "cd lean && lake build " + " ".join(targets)
        self.checker_cmds.append(cmd)
        with self._lean_lock(True):
            if not self.quick:
                # thorough: force a rebuild of the property's own modules
                for m in modules:
                    for ext in ("olean", "ilean", "trace", "olean.hash", "ilean.hash"):
                        p = os.path.join(LEAN_DIR, ".lake", "build", "lib", "lean", LIB, *m.split(".")) + "." + ext
                        if os.path.exists(p):
                            os.remove(p)
            rc, out = self.lake(["build"] + targets, lock=None)
        return rc == 0, out

    def forbidden_scan(self, modules: list[str]) -> list[str]:
        hits = []
        for m in modules:
            path = os.path.join(LEAN_DIR, LIB, *m.split(".")) + ".lean"
            if not os.path.exists(path):
                hits.append(f"{m}: missing")
                continue
            with open(path, encoding="utf-8") as f:
                src = strip_lean_comments(f.read())
            for ln, line in enumerate(src.split("\n"), 1):
                if FORBIDDEN.search(line):
                    hits.append(f"{m}:{ln}: {line.strip()[:80]}")
        return hits

    def axiom_audit(self, module: str, theorems: list[str]) -> dict[str, list[str] | None]:
        """#print axioms for each theorem; returns name -> axiom list (None if the theorem is missing)."""
        src = [f"import {LIB}.{module}"]
        for th in theorems:
            src.append(f"#print axioms {th}")
        tmp = os.path.join(LEAN_DIR, f".audit_{self.pid}_{os.getpid()}.lean")
        with open(tmp, "w") as f:
            f.write("\n".join(src) + "\n")
        try:
            rc, out = self.lake(["env", "lean", tmp])
        finally:
            os.remove(tmp)
        res: dict[str, list[str] | None] = {th: None for th in theorems}
        # "'name' depends on axioms: [a, b]"  /  "'name' does not depend on any axioms"
        for m in re.finditer(r"'([^']+)' depends on axioms: \[([^\]]*)\]", out, re.S):
            res[m.group(1)] = [a.strip() for a in m.group(2).replace("\n", " ").split(",") if a.strip()]
        for m in re.finditer(r"'([^']+)' does not depend on any axioms", out):
            res[m.group(1)] = []
        return res

    def prove(self, modules: list[str], prop_module: str, theorems: list[str]) -> bool:
        """Build + forbidden-token scan + axiom audit. Each theorem is one obligation.

        Returns True iff every obligation was discharged. On failure records self.broken entries.
        """
        if os.environ.get("VERIF_TRANSLATE_ONLY"):
            raise TranslateOnly()
        t0 = time.time()
        self.obligations += len(theorems)
        ok, out = self.lean_build(modules)
        bad_tokens = self.forbidden_scan(modules)
        if bad_tokens:
            raise HarnessError("forbidden tokens in Lean sources: " + "; ".join(bad_tokens[:5]))
        if not ok:
            errs = [l for l in out.splitlines() if "error" in l.lower()][:12]
            self.broken.append({"kind": "proof", "what": f"lake build {modules}", "errors": errs})
            self.note("proof obligations no longer check: " + " | ".join(errs[:3]))
            # which theorems still check?  try the audit anyway (works for modules that did build)
        audit = self.axiom_audit(prop_module, theorems) if ok else {th: None for th in theorems}
        for th, ax in audit.items():
            entry: dict[str, t.Any] = {"name": th, "axioms": ax}
            if ax is None:
                entry["status"] = "unchecked"
                if ok:
                    self.broken.append({"kind": "proof", "what": f"theorem {th} missing from {prop_module}"})
            elif set(ax) - ALLOWED_AXIOMS:
                entry["status"] = "disallowed-axioms"
                raise HarnessError(f"theorem {th} depends on disallowed axioms {ax}")
            else:
                entry["status"] = "checked"
                self.discharged += 1
            self.theorems[th] = entry
        self._attach_statements(prop_module)
        self.cov["prove_s"] = round(time.time() - t0, 1)
        if not self.quick and ok:
            mods = [f"{LIB}.{m}" for m in modules]
            cmd = "cd lean && lake env leanchecker " + " ".join(mods)
            self.checker_cmds.append(cmd)
            rc, out2 = self.lake(["env", "leanchecker"] + mods, timeout=3600)
            for _ in range(2):
                # a compiled module that is missing is a harness matter (another process removed it), not a rejection
                if rc == 0 or not re.search(r"does not exist|No such file", out2):
                    break
                time.sleep(5)
                with self._lean_lock(True):
                    self.lake(["build"] + mods, lock=None)
                rc, out2 = self.lake(["env", "leanchecker"] + mods, timeout=3600)
            if rc != 0 and re.search(r"does not exist|No such file", out2):
                raise HarnessError("leanchecker could not read a compiled module: " + out2[-300:])
            self.cov["leanchecker"] = "ok" if rc == 0 else out2[-400:]
            if rc != 0:
                self.broken.append({"kind": "proof", "what": "leanchecker rejected compiled modules", "errors": [out2[-400:]]})
        return ok and not any(b["kind"] == "proof" for b in self.broken)

    def _attach_statements(self, prop_module: str) -> None:
        """Record each property theorem's statement (text + hash) in the evidence and compare it with the committed
        statement manifest lean/statements.json, so a silently weakened statement is visible."""
        path = os.path.join(LEAN_DIR, LIB, *prop_module.split(".")) + ".lean"
        try:
            src = strip_lean_comments(open(path, encoding="utf-8").read())
        except OSError:
            return
        stmts = extract_statements(src)
        manifest = {}
        mp = os.path.join(LEAN_DIR, "statements.json")
        if os.path.exists(mp):
            manifest = json.load(open(mp)).get(self.pid, {})
        changed = []
        for full, entry in self.theorems.items():
            short = full.split(".")[-1]
            st = stmts.get(short) or stmts.get(".".join(full.split(".")[-2:]))
            if st is None:
                continue
            h = hashlib.sha256(st.encode()).hexdigest()[:16]
            entry["statement"] = st[:400]
            entry["statement_sha"] = h
            if full in manifest and manifest[full] != h:
                changed.append(full)
        self.cov["statement_manifest"] = {"registered": len(manifest), "changed_since_manifest": changed}
        if changed:
            self.note("statements differ from lean/statements.json (update with python3 -m vf.statements): " + ", ".join(c.split(".")[-1] for c in changed[:6]))

    def driver(self, name: str, lines: list[str], timeout: int = 1200) -> list[str]:
        """Run lean/SqlglotModel/Driver/<name>.lean as a line-protocol filter."""
        path = os.path.join(LIB, "Driver", f"{name}.lean")
        inp = "\n".join(lines) + "\n"
        rc, out = self._run_driver(path, inp, timeout)
        if rc != 0:
            raise HarnessError(f"model driver {name} failed (rc={rc}): {out[-600:]}")
        res = out.split("\n")
        if res and res[-1] == "":
            res.pop()
        if len(res) != len(lines):
            raise HarnessError(f"model driver {name}: {len(lines)} lines in, {len(res)} out; tail: {out[-300:]}")
        return res

    def _run_driver(self, path: str, inp: str, timeout: int) -> tuple[int, str]:
        env = dict(os.environ)
        try:
            with self._lean_lock(False):
                p = subprocess.run(
                    ["lake", "env", "lean", "--run", path],
                    cwd=LEAN_DIR,
                    input=inp.encode("utf-8"),
                    capture_output=True,
                    timeout=timeout,
                    env=env,
                )
        except subprocess.TimeoutExpired:
            raise HarnessError(f"driver {path} timed out")
        if p.returncode != 0:
            return p.returncode, (p.stdout + p.stderr).decode("utf-8", "replace")
        return 0, p.stdout.decode("utf-8", "replace")

    # ---- outcomes ------------------------------------------------------------------------
    def correspondence_broken(self, what: str, example: t.Any) -> None:
        self.corr_disagreements += 1
        if sum(1 for b in self.broken if b["kind"] == "correspondence") < 5:
            self.broken.append({"kind": "correspondence", "what": what, "example": example})
            self.note(f"correspondence differs: {what}: {json.dumps(example, default=repr)[:300]}")

    def report_violation(self, key: str, what: str, replay: t.Any, context: dict | None = None) -> None:
        """A concrete input/state/history on the REAL code that violates the property's statement.

        `key` is the minimised skeleton used for known-finding matching.
        """
        rec = {"key": key, "what": what, "replay": replay, "context": context or {}}
        for k in self._known:
            if k.get("property") != self.pid or k.get("kind") != "known":
                continue
            m = k.get("match", {})
            if "key" in m and m["key"] == key or "key_regex" in m and re.fullmatch(m["key_regex"], key, re.S):
                ctx_ok = all((context or {}).get(ck) == cv for ck, cv in m.get("context", {}).items())
                if ctx_ok:
                    self.known_hits.append((k, rec))
                    return
        # dedupe by key
        if any(v["key"] == key for v in self.violations):
            return
        self.violations.append(rec)
        self.note(f"violation on the real code [{key}]: {what}")

    def finish(self) -> int:
        os.makedirs(os.path.join(ROOT, "evidence"), exist_ok=True)
        os.makedirs(os.path.join(ROOT, "replays"), exist_ok=True)
        lines = []
        seen_known = set()
        for k, rec in self.known_hits:
            if k["id"] in seen_known:
                continue
            seen_known.add(k["id"])
            lines.append(f"KNOWN-FINDING: property={self.pid} {k['id']}: {k.get('description', '')} (e.g. {json.dumps(rec['replay'], default=repr)[:160]})")
        exit_code = 0
        nviol = 0
        for i, v in enumerate(self.violations):
            path = os.path.join(ROOT, "replays", f"{self.pid}-seed{self.seed}-{i}.json")
            with open(path, "w") as f:
                json.dump({"property": self.pid, "tier": self.tier, "seed": self.seed, **v,
                           "broken": self.broken}, f, indent=1, default=repr)
            lines.append(f"VIOLATION property={self.pid} replay={path}")
            nviol += 1
            exit_code = 1
        if self.broken and not self.violations:
            path = os.path.join(ROOT, "replays", f"{self.pid}-seed{self.seed}-unproved.json")
            with open(path, "w") as f:
                json.dump({"property": self.pid, "tier": self.tier, "seed": self.seed,
                           "no_longer_checks": self.broken,
                           "search": self.search_info,
                           "note": "the model/theorem/correspondence tie to the current source broke and the "
                                   "failing-input search found no concrete violating input"}, f, indent=1, default=repr)
            lines.append(f"VIOLATION property={self.pid} replay={path} no-failing-input-found")
            nviol += 1
            exit_code = 1
        cov = dict(self.cov)
        cov.update(
            obligations=self.obligations,
            discharged=self.discharged,
            checker_cmd=" && ".join(dict.fromkeys(self.checker_cmds)) or "cd lean && lake build",
            trusted_base=self.trusted,
            theorems=list(self.theorems.values()),
            evaluations=self.evaluations,
            distinct_nontrivial=len(self.nontrivial),
            samples=self.samples[:12],
            correspondence={"cases": self.corr_cases, "disagreements": self.corr_disagreements},
            distribution=dict(sorted(self.dist.items())),
            search=self.search_info,
            broken=self.broken,
            known_findings_hit=sorted(seen_known),
            notes=self.notes[-40:],
        )
        # keys the evidence schema types: a builder's extra detail under one of these names is moved aside, never dropped
        for k, ty in (("exhaustive", bool), ("states", int), ("transitions", int), ("traces_validated_against_impl", int),
                      ("programs", int), ("disagreements_checked", int), ("explanation", str), ("rule", str)):
            if k in cov and (not isinstance(cov[k], ty) or (ty is int and isinstance(cov[k], bool))):
                cov[k + "_detail"] = cov.pop(k)
        ev = {
            "property_id": self.pid,
            "tier": self.tier,
            "seed": self.seed,
            "level": "proof",
            "coverage": cov,
            "assumptions": self.assumptions,
            "wall_s": round(self.elapsed(), 2),
            "violations": nviol,
        }
        with open(os.path.join(ROOT, "evidence", f"{self.pid}.json"), "w") as f:
            json.dump(ev, f, indent=1, default=repr)
            f.write("\n")
        for l in lines:
            print(l, flush=True)
        print(f"[{self.pid}] tier={self.tier} seed={self.seed} obligations={self.obligations} discharged={self.discharged} "
              f"corr_cases={self.corr_cases} disagreements={self.corr_disagreements} evaluations={self.evaluations} "
              f"violations={nviol} known={len(seen_known)} wall={self.elapsed():.1f}s", flush=True)
        return exit_code


def _load_known() -> list[dict]:
    """known_findings.json (committed; never written at run time)."""
    out: list[dict] = []
    p = os.path.join(ROOT, "known_findings.json")
    if os.path.exists(p):
        with open(p) as f:
            out += json.load(f).get("findings", [])
    # proposals written by property builders, merged into known_findings.json by the integrator
    import glob
    for q in sorted(glob.glob(os.path.join(ROOT, "known_pending", "*.json"))):
        with open(q) as f:
            d = json.load(f)
        out += d.get("findings", d) if isinstance(d, dict) else d
    return out


def run_isolated(fn: t.Callable, *args, timeout: float = 20.0):
    """Call fn(*args) with a SIGALRM watchdog (main thread only). Returns (status, value)."""
    import signal

    class _TO(Exception):
        pass

    def handler(signum, frame):
        raise _TO()

    old = signal.signal(signal.SIGALRM, handler)
    signal.setitimer(signal.ITIMER_REAL, timeout)
    try:
        return "ok", fn(*args)
    except _TO:
        return "timeout", None
    except RecursionError as e:
        return "exc", e
    except Exception as e:  # noqa
        return "exc", e
    finally:
        signal.setitimer(signal.ITIMER_REAL, 0)
        signal.signal(signal.SIGALRM, old)


def main_entry(argv: list[str]) -> int:
    import argparse
    import importlib

    ap = argparse.ArgumentParser()
    ap.add_argument("pid")
    ap.add_argument("--tier", default=os.environ.get("VERIF_TIER", "quick"), choices=["quick", "thorough"])
    ap.add_argument("--replay", default=None)
    ns = ap.parse_args(argv)
    seed = int(os.environ.get("VERIF_SEED", "0") or 0)
    pid = ns.pid.upper()
    sys.path.insert(0, REPO)
    mod = importlib.import_module(f"vf.props.{pid.lower()}")
    if ns.replay:
        return mod.replay(ns.replay)
    chk = Check(pid, ns.tier, seed)
    try:
        mod.run(chk)
        return chk.finish()
    except TranslateOnly:
        print(f"[{pid}] Generated/{pid}.lean regenerated from {REPO}", flush=True)
        return 0
    except HarnessError as e:
        print(f"[{pid}] HARNESS ERROR: {e}", flush=True)
        return 2
    except Exception:
        traceback.print_exc()
        print(f"[{pid}] HARNESS ERROR (unexpected exception)", flush=True)
        return 2
